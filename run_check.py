#!/venv/bin/python
"""Entry point of every check.

  run_check.py --property C04 --tier quick|thorough [--runs-scale F] [--workers N]
  run_check.py --replay /verif/replays/C04-....json
  run_check.py --selftest C04 [--n 200]          determinism self-test

Exit codes: 0 property held on everything explored (KNOWN-FINDING lines
allowed); 1 violation (line ``VIOLATION property=<id> replay=<path>``);
2 harness error / timeout (no verdict).
"""
import argparse
import glob
import json
import logging
import os
import subprocess
import sys
import time

HERE = os.path.dirname(os.path.abspath(__file__))


def _reexec_with_fixed_hashseed():
    # VERIF_HASHSEED is only used by the determinism self-test to show that
    # digests do not depend on str hashing
    want = os.environ.get("VERIF_HASHSEED", "0")
    # numerical libraries stay single-threaded: the runs are spread over a fork pool, and
    # forking a process that holds a BLAS / OpenMP thread pool can leave a worker waiting
    # for a lock no thread of it owns (seen once as a hung check: workers asleep on a
    # futex, 16 BLAS threads each); it also avoids 16 x 16 threads on 16 cores
    single = {"OPENBLAS_NUM_THREADS": "1", "OMP_NUM_THREADS": "1", "MKL_NUM_THREADS": "1",
              "NUMEXPR_NUM_THREADS": "1", "VECLIB_MAXIMUM_THREADS": "1"}
    if os.environ.get("PYTHONHASHSEED") != want or any(os.environ.get(k) != v for k, v in single.items()):
        env = dict(os.environ, PYTHONHASHSEED=want, **single)
        os.execve(sys.executable, [sys.executable] + sys.argv, env)


def bootstrap():
    """Put the tree under test first on sys.path, install the seams, import
    pyrex and make sure it really comes from that tree."""
    repo = os.path.realpath(os.environ.get("VERIF_REPO", "/repo"))
    sys.path.insert(0, HERE)
    sys.path.insert(0, repo)
    import warnings
    warnings.filterwarnings("ignore")
    import numpy as np
    np.seterr(all="ignore")
    from sim import seams
    seams.install_numpy_seam()
    seams.install_storage_seam()
    import pyrex
    import pyrex.io
    got = os.path.realpath(os.path.dirname(pyrex.__file__))
    if not got.startswith(repo + os.sep):
        print("HARNESS-ERROR: pyrex imported from %s, expected under %s" % (got, repo))
        sys.exit(2)
    seams.install_clock_seam(pyrex.io)
    logging.disable(logging.CRITICAL)
    return repo


def load_machines(prop):
    import props
    return props.machines_for(prop)


def find_machine(prop, name):
    for m in load_machines(prop):
        if m.name == name:
            return m
    raise SystemExit("HARNESS-ERROR: unknown machine %s/%s" % (prop, name))


def load_known_findings():
    path = os.path.join(HERE, "known_findings.json")
    if not os.path.exists(path):
        return []
    with open(path) as f:
        return json.load(f).get("findings", [])


def match_known(record, machine_cls, findings):
    """Return the open finding that this minimised violation matches, if any."""
    v = record["violation"]
    for f in findings:
        if f.get("status") != "open" or f.get("property") != record["property"]:
            continue
        sig = f.get("signature", {})
        if sig.get("violation_class") and sig["violation_class"] != v["cls"]:
            continue
        pred = sig.get("predicate")
        if pred:
            fn = getattr(machine_cls, "finding_predicates", {}).get(pred)
            if fn is None or not fn(record):
                continue
        return f
    return None


def do_replay(path):
    from sim import engine
    with open(path) as f:
        record = json.load(f)
    machine_cls = find_machine(record["property"], record["machine"])
    res = engine.execute(machine_cls, record, generate=False)
    v = res["violation"]
    print("REPLAY property=%s machine=%s ops=%d digest=%s" % (
        record["property"], record["machine"], len(record["ops"]), res["digest"]))
    if v is None:
        print("REPLAY-RESULT: no violation")
        return 0
    print("REPLAY-RESULT: violation class=%s step=%s" % (v["cls"], v["step"]))
    print("  " + v["msg"])
    want = record.get("violation")
    if want and want.get("cls") != v["cls"]:
        print("REPLAY-NOTE: recorded class was %s" % want.get("cls"))
    print("VIOLATION property=%s replay=%s" % (record["property"], os.path.abspath(path)))
    return 1


def selftest(prop, n, workers):
    """Same seeds twice, sequentially and on the pool: digests must agree."""
    from sim import engine
    from sim.rng import DEFAULT_VERIF_SEED
    machines = load_machines(prop)
    seed = int(os.environ.get("VERIF_SEED", DEFAULT_VERIF_SEED))
    plan = [(m, range(n)) for m in machines]
    a = engine.run_batch(machines, plan, seed, workers=1)
    b = engine.run_batch(machines, plan, seed, workers=workers)
    da = {(r["machine"], r["idx"]): r.get("digest") for r in a["results"]}
    db = {(r["machine"], r["idx"]): r.get("digest") for r in b["results"]}
    bad = [k for k in da if da[k] != db.get(k)]
    for k in sorted(da):
        print("DIGEST %s %d %s" % (k[0], k[1], da[k]))
    print("SELFTEST property=%s runs=%d mismatches=%d" % (prop, len(da), len(bad)))
    return 2 if bad else 0


def run_property(prop, tier, scale, workers):
    from sim import engine, evidence
    from sim.rng import DEFAULT_VERIF_SEED
    t_start = time.time()
    verif_seed = int(os.environ.get("VERIF_SEED", DEFAULT_VERIF_SEED))
    machines = load_machines(prop)
    findings = load_known_findings()
    print("CHECK property=%s tier=%s VERIF_SEED=%d workers=%d repo=%s" % (
        prop, tier, verif_seed, workers, os.environ.get("VERIF_REPO", "/repo")))
    sys.stdout.flush()

    violations = []   # (machine_cls, record-with-violation)
    harness_errors = []

    # 1. regression corpus first
    corpus_files = sorted(glob.glob(os.path.join(HERE, "corpus", prop, "*.json")))
    corpus_run = 0
    for path in corpus_files:
        with open(path) as f:
            rec = json.load(f)
        mcls = find_machine(rec["property"], rec["machine"])
        try:
            res = engine.execute(mcls, rec, generate=False)
        except Exception as e:  # harness problem
            harness_errors.append("corpus %s: %r" % (path, e))
            continue
        corpus_run += 1
        if res["violation"] is not None:
            rec = dict(rec, violation=res["violation"], corpus_file=path)
            violations.append((mcls, rec, True))

    # 2. determinism mini self-test (same seeds in-process and on the pool)
    n_self = 8 if tier == "quick" else 32
    plan = [(m, range(n_self)) for m in machines]
    a = engine.run_batch(machines, plan, verif_seed, workers=1)
    b = engine.run_batch(machines, plan, verif_seed, workers=min(workers, 4), batch_limit=600)
    da = {(r["machine"], r["idx"]): r.get("digest") for r in a["results"]}
    db = {(r["machine"], r["idx"]): r.get("digest") for r in b["results"]}
    det_mismatch = sorted(k for k in da if da[k] != db.get(k))
    if det_mismatch:
        harness_errors.append("determinism self-test mismatch on %r" % (det_mismatch[:5],))

    # 3. the seeded search
    plan = []
    for m in machines:
        n = max(1, int(round(m.budget[tier] * scale)))
        plan.append((m, range(n)))
    batch_limit = 1500 if tier == "quick" else 7200
    batch = engine.run_batch(machines, plan, verif_seed, workers=workers,
                             batch_limit=batch_limit)
    if batch["timed_out"]:
        harness_errors.append("batch exceeded its wall-clock limit")
    by_machine = {m.name: m for m in machines}
    agg = evidence.Aggregate(prop, tier, verif_seed)
    for r in batch["results"]:
        if r["err"]:
            harness_errors.append("run %s/%d: %s" % (r["machine"], r["idx"],
                                                     r["err"].strip().splitlines()[-1]))
            if r["err"] != "timeout":
                print(r["err"])
            continue
        agg.add(r)
        if r["violation"] is not None:
            rec = dict(r["record"], violation=r["violation"])
            violations.append((by_machine[r["machine"]], rec, False))

    # 3b. machine-specific deep tiers (fault enumeration, exhaustive slices)
    extra = []
    for m in machines:
        fn = getattr(m, "extra_tier", None)
        if fn is not None:
            ex = fn(tier, verif_seed, workers, scale)
            if ex:
                extra.append(ex)
                for rec in ex.get("violations", []):
                    violations.append((m, rec, False))
                harness_errors.extend(ex.get("errors", []))

    # 4. fault reach: every required counter must have fired
    for m in machines:
        for key in getattr(m, "required_counters", ()):
            if agg.stat(m.name, key) <= 0:
                harness_errors.append("reach: counter %s/%s never fired" % (m.name, key))

    # 5. report
    exit_code = 0
    reported = {}
    known_lines = []
    os.makedirs(os.path.join(HERE, "replays"), exist_ok=True)
    violations.sort(key=lambda t: (not t[2], t[0].name, t[1].get("run_index", 0)))
    n_viol_runs = len(violations)
    for mcls, rec, from_corpus in violations:
        cls = rec["violation"]["cls"]
        key = (mcls.name, cls)
        if key in reported or len(reported) >= 6:
            continue
        try:
            small = engine.shrink(mcls, rec, rec["violation"])
        except Exception as e:
            harness_errors.append("shrink failed: %r" % (e,))
            small = rec
        small["repo"] = os.environ.get("VERIF_REPO", "/repo")
        fname = "%s-%s-%d-%s.json" % (prop, mcls.name, verif_seed,
                                      rec.get("run_index", "corpus"))
        path = os.path.join(HERE, "replays", fname)
        with open(path, "w") as f:
            json.dump(small, f, indent=1, sort_keys=True)
        # replay round trip in a fresh interpreter
        proc = subprocess.run([sys.executable, os.path.abspath(__file__), "--replay", path],
                              capture_output=True, text=True, timeout=600)
        ok = proc.returncode == 1 and ("class=%s " % cls) in proc.stdout
        if not ok:
            harness_errors.append("replay of %s did not reproduce (%s)" % (
                path, proc.stdout.strip().splitlines()[-1:] or proc.stderr[-200:]))
            continue
        reported[key] = path
        known = match_known(small, mcls, findings)
        if known is not None:
            known_lines.append("KNOWN-FINDING: property=%s %s" % (prop, known["text"]))
            continue
        exit_code = 1
        print("VIOLATION property=%s replay=%s" % (prop, path))
        print("  class=%s machine=%s ops=%d (from %d) step=%s" % (
            cls, mcls.name, len(small["ops"]), len(rec["ops"]), small["violation"]["step"]))
        print("  " + small["violation"]["msg"])
    for line in sorted(set(known_lines)):
        print(line)

    wall = time.time() - t_start
    ev = agg.to_evidence(machines, wall, corpus_run=corpus_run,
                         determinism={"seeds": n_self * len(machines), "mismatches": len(det_mismatch)},
                         violations=0 if exit_code == 0 else len(reported),
                         violating_runs=n_viol_runs, extra=extra,
                         workers=workers)
    if harness_errors:
        for e in harness_errors[:20]:
            print("HARNESS-ERROR: " + e)
        ev["coverage"]["harness_errors"] = harness_errors[:20]
        if exit_code == 0:
            exit_code = 2
    evidence.write(prop, ev)
    print("SUMMARY property=%s tier=%s runs=%d distinct_nontrivial=%d violating_runs=%d wall=%.1fs exit=%d" % (
        prop, tier, agg.evaluations, agg.distinct_nontrivial(), n_viol_runs, wall, exit_code))
    return exit_code


def _arm_watchdog(seconds):
    """Last line of defence against a hung pool: never exit 0, never hang for good."""
    import signal

    def _fire(signum, frame):
        sys.stdout.write("HARNESS-ERROR: global wall-clock limit of %d s exceeded\n" % seconds)
        sys.stdout.flush()
        try:
            import multiprocessing
            for p in multiprocessing.active_children():
                p.kill()
        except Exception:
            pass
        os._exit(2)
    signal.signal(signal.SIGALRM, _fire)
    signal.alarm(int(seconds))


def main():
    ap = argparse.ArgumentParser()
    ap.add_argument("--property")
    ap.add_argument("--tier", default=os.environ.get("VERIF_TIER", "quick"),
                    choices=["quick", "thorough"])
    ap.add_argument("--replay")
    ap.add_argument("--selftest")
    ap.add_argument("--n", type=int, default=200)
    ap.add_argument("--runs-scale", type=float,
                    default=float(os.environ.get("VERIF_RUNS_SCALE", "1")))
    ap.add_argument("--workers", type=int,
                    default=int(os.environ.get("VERIF_WORKERS", str(min(16, os.cpu_count() or 1)))))
    args = ap.parse_args()
    _reexec_with_fixed_hashseed()
    bootstrap()
    if args.replay:
        sys.exit(do_replay(args.replay))
    if args.selftest:
        sys.exit(selftest(args.selftest, args.n, args.workers))
    if not args.property:
        ap.error("--property, --replay or --selftest required")
    try:
        _arm_watchdog(int(os.environ.get("VERIF_WATCHDOG_S", 3000 if args.tier == "quick" else 8 * 3600)))
        code = run_property(args.property, args.tier, args.runs_scale, args.workers)
    except SystemExit:
        raise
    except BaseException:
        import traceback
        traceback.print_exc()
        print("HARNESS-ERROR: check aborted")
        code = 2
    sys.stdout.flush()
    sys.exit(code)


if __name__ == "__main__":
    main()
