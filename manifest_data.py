"""Source of MANIFEST.json (tools/gen_manifest.py). Only finished checks are listed."""

TECH = "deterministic simulation with fault injection: "

CHECKS = [
    {"property_id": "C04", "category": "exploration", "design_ref": "DESIGN.md §4 C04",
     "text": "Seeded search over histories (<=40 ops) of construct/copy/add/sum/scale/shift/with_times on real Signal/EmptySignal/FunctionSignal/noise objects interleaved with adversarial events (caller scribbles over a buffer it handed to pyrex, in-place edits of signal arrays, refused additions); after every step every slot is compared with a reference model and no two owners may share memory. Sampled, not exhaustive: evidence, not proof - the right level because aliasing only shows under particular orders of derive/mutate.",
     "level_note": "Trusted: the harness's reference model (pad/truncate, pointwise add with neutral empty/undefined, own piecewise-linear interpolation, exact re-evaluation of caller functions); numpy; tolerances 1e-12 (sampled) / 1e-11 + conditioning term (function-backed). resample() and non-numeric scale factors are outside the statement and not generated.",
     "technique": TECH + "seeded operation/fault histories vs reference model + no-shared-memory invariant, ddmin-shrunk replay files"},
]

CHECKS.append(
    {"property_id": "C06", "category": "exploration", "design_ref": "DESIGN.md §4 C06",
     "text": "Seeded search over histories in which value reads are scheduled between public mutating operations on long-lived FunctionSignal objects (plain, sums, thermal noise, Askaryan pulses) and between attribute assignments on ray tracers / ray paths (all four tracer families). Oracle 1: a fresh twin rebuilt from the recorded definition and never read before the comparison must report the same quantities; oracle 2: independent eager evaluation of the signal definition where it is unambiguous. Includes the rejected set_buffers call (raises after a partial change) and invalid-then-valid ice assignment as faults. Sampled histories: evidence, not proof.",
     "level_note": "Trusted: the fresh object built by the same pyrex code without intervening reads (oracle 1 cannot see an error that does not depend on read placement - oracle 2 covers plain signals for that), numpy FFT for oracle 2. In-place mutation of array elements or of a shared ice object is not generated (not an attribute assignment). A read raising the same exception type on the fresh object counts as agreement.",
     "technique": TECH + "PRNG-scheduled read/mutate interleavings vs fresh-twin and eager-definition oracles"})

CHECKS.append(
    {"property_id": "C19", "category": "exploration", "design_ref": "DESIGN.md §4 C19",
     "text": "Seeded search over histories of detector construction (generated Detector subclasses, nesting depth 1-4, spy sub-detectors with different build/trigger signatures), composition by +, list/antenna on the left, +=, sum, receptions on individual antennas, clear, trigger queries with keyword sets, indexing, and rejected compositions with antennas or sub-detectors above the ice. After every step every live detector's iteration/len/indexing is compared with the model list of antenna objects (identity, order, no duplicates), (a+b)+c = a+(b+c) = sum = +=, triggers with the union over antennas/sub-detectors, clears with exactly the model antennas, and spies with the keywords they accept. Sampled: evidence, not proof.",
     "level_note": "Trusted: the harness's Detector subclasses and its model of construction order; antenna is_hit itself (C09). += is not issued on a detector object nested in another live detector; keywords no sub-detector names are not generated (caller error).",
     "technique": TECH + "seeded composition/fault histories vs ordered-antenna-list model with per-step invariants"})

CHECKS.append(
    {"property_id": "C09", "category": "exploration", "design_ref": "DESIGN.md §4 C09",
     "text": "Seeded search over histories on one long-lived Antenna / DipoleAntenna / AntennaSystem (FIR front end, lead-in 0, 3, 25, 25.5 samples), noisy and noiseless: receptions with overlapping, disjoint, nested and off-grid windows interleaved - by the simulator's PRNG, never by the harness itself - with waveform/trigger/full_waveform/is_hit_during/make_noise/signals queries, clears with and without noise reset, refused receives and a trigger collaborator that raises once. Oracles: one waveform per signal on its own grid; triggered list = trigger re-evaluated independently; is_hit; empty after clear; noiseless full_waveform = superposition of the stored signals through the front end; an absolute-time -> noise map per epoch that every observation must agree with.",
     "level_note": "Trusted: antenna.signals[k] as produced by apply_response (C08 not rechecked); the harness's FIR front-end model; per-hit waveform values may be any reception-prefix superposition containing the hit. Test pulses taper to zero at their window edges (a jump at the edge would make the answer depend on rounding between time grids).",
     "technique": TECH + "PRNG-scheduled query/receive/clear interleavings with refused-receive and raising-trigger faults vs bookkeeping model and absolute-time noise map"})

CHECKS.append(
    {"property_id": "C17", "category": "exploration", "design_ref": "DESIGN.md §4 C17",
     "text": "Seeded search over histories of one noise realisation (FFT and exact-cosine implementations; grids 8-256 samples, bands inside / touching 0 / across and above Nyquist / one-bin, constant, function and default Rayleigh amplitudes, uniqueness 1-10, rms direct or from T,R) that is read, re-gridded (contained, overlapping, disjoint, far, off-grid), shifted, copied, rebuilt from its published basis, rebuilt from a basis written to and read from a file on the simulated disk through an antenna's noise master, and independently re-drawn - under seeded random streams with injected extreme draws (phase 0 / 1-2^-53, Rayleigh 0). Invariants on every object: values = explicit cosine sum of the published basis, frequencies in band, no DFT power outside the published bins, unit amplitudes give the requested RMS, rms = sqrt(k_B T R bandwidth), an absolute-time -> value map all views must agree with. A second machine checks the default-amplitude mean square over 400-object ensembles at 6 sigma.",
     "level_note": "Trusted: the harness's cosine-sum evaluator with real-FFT bin weights; off-grid values of the FFT implementation are only compared with other observations of the same absolute time; distributional clause decided at 6 sigma on fixed seeds (gross normalisation errors, not per-mille bias).",
     "technique": TECH + "seeded PRNG stream with buggify injections + re-grid/shift/copy/rebuild/file-restart histories vs explicit cosine-sum evaluator and absolute-time map"})

CHECKS.append(
    {"property_id": "C11", "category": "fault_enumeration", "design_ref": "DESIGN.md §4 C11",
     "text": "Seeded histories of add() calls on a real HDF5Writer over the simulated disk, across the legal settings of the six write_* options x require_trigger (bool or any sub-list) x detector size 1-4 x noisy/noiseless antennas, with ragged particle/ray/waveform counts and bool/dict/per-waveform triggers; rejected adds of both kinds (eight argument rejections the writer raises itself; 'the k-th access pyrex makes into a caller-supplied event / antenna / ray-path object raises' through attribute-agnostic counting proxies); close-readback-reopen(append) checkpoints as restarts. Final read-back through a fresh reader is compared field by field (bit-exact floats) with records captured at each accepted add; the index table must address rows inside the datasets. Fault enumeration: for sampled histories every collaborator access k=1..K of a chosen add is tried as the failure point (exhaustive within that add). Histories themselves are sampled.",
     "level_note": "Trusted: h5py/libhdf5 on an in-memory file object (byte-level faults inside libhdf5 are not injected: no property speaks about them); the harness's record of what each option set must store. Nothing demanded about orphan rows / total_thrown after a rejected add, or files never closed; component triggers compared only where waveform rows exist.",
     "technique": TECH + "seeded add/reject/restart histories on an in-memory disk + exhaustive enumeration of collaborator failure points within an add, vs per-add reference records"})

CHECKS.append(
    {"property_id": "C12", "category": "exploration", "design_ref": "DESIGN.md §4 C12",
     "text": "Seeded histories: 2-8 events with ragged rows are written once in a single session (reference) and again split into 1-4 append sessions, each session a restart (new writer object, counters recovered from the simulated disk, detector re-linked, simulated clock advanced or jumped backwards); then a PRNG-ordered battery of fresh readers - iteration with every chunk size, every integer index -n..n-1, slices in positive / negative / None spellings with step>=1, two interleaved iterators over one open file, File() and context-manager access, FileGenerator over file lists with any chunk size, and out-of-range / zero / negative-step accesses that must raise and leave the reader usable. Oracle: event-for-event equality (canonical digests of everything the public accessors return) with one sequential pass over the reference file; FileGenerator particles field by field. A fraction of runs enumerates all slices 0<=a<b<=n, 1<=c<=n in four spellings plus all indices (n<=7).",
     "level_note": "Trusted: the sequential slice_range=None pass over the single-session file as reference (a writer bug common to both files is C11's business, not visible here); /file_metadata excluded; every event records particles; total_thrown apportioning not judged.",
     "technique": TECH + "append-session restarts with clock jumps on an in-memory disk + PRNG-ordered reader battery vs single-session sequential-pass reference"})

NOT_APPLICABLE = [
    {"property_id": "C01", "reason": "pure function of (endpoints, ice parameters, dz): no state, randomness, I/O, schedule or fault for a simulator to control; needs an ODE/quadrature oracle (different technique)"},
    {"property_id": "C02", "reason": "metamorphic relations between pure function evaluations (swap/translate/rotate endpoints); no history or fault dimension (lazy-cache aspect of tracers is covered under C06)"},
    {"property_id": "C03", "reason": "propagate() is a pure function of (path, signal, polarization, interpolation step); nothing for a schedule, clock or fault to act on"},
    {"property_id": "C05", "reason": "pure function of (samples, response): algebraic identities over inputs with no state or fault"},
    {"property_id": "C07", "reason": "pure function of (energy, angle, distance, grid, t0): scaling laws over inputs, no state/randomness/I-O"},
    {"property_id": "C08", "reason": "apply_response is a pure function of (antenna parameters, signal, direction, polarization); no history enters"},
    {"property_id": "C15", "reason": "pure function of radius and of (endpoint, direction, step): quadrature oracle over inputs, no state or fault"},
    {"property_id": "C16", "reason": "pure functions of depth/frequency arrays and model parameters"},
    {"property_id": "C18", "reason": "pure geometric/metamorphic relations over inputs (image geometry, layer splitting)"},
    {"property_id": "C20", "reason": "statement about every attribute reference in the source against a dependency range: static resolution, not an execution under faults (its concrete instances on this tree were nevertheless repaired because they made the claimed properties fail)"},
    {"property_id": "C10", "reason": "claimed in DESIGN.md; check under construction in this session"},
    {"property_id": "C13", "reason": "claimed in DESIGN.md; check under construction in this session"},
    {"property_id": "C14", "reason": "claimed in DESIGN.md; check under construction in this session"},
]
