"""C09 - antenna / antenna-system hit bookkeeping is consistent under every history.

One long-lived Antenna, DipoleAntenna or AntennaSystem (FIR front end with a
lead-in time) receives signals with overlapping / disjoint / nested windows
while the PRNG schedules the queries (waveforms, all_waveforms, is_hit,
full_waveform, is_hit_during, make_noise, signals) and clears between them.
Queries are *only* issued as scheduled operations - never by the harness on
its own - because pyrex fills its caches incrementally at query time and the
placement of the queries is exactly what is explored.
"""
import numpy as np

from sim.engine import Machine, Violation, Skip
from sim import seams

QUARTER = 4  # absolute-time keys are multiples of dt/4


def interp_zero(new_t, t, v):
    """Linear interpolation, zero outside; sample times that differ from the
    ends of the span only by rounding are snapped onto them."""
    new_t = np.asarray(new_t, dtype=float)
    if len(t) > 1:
        eps = 1e-6 * (t[1] - t[0])
        new_t = np.where(np.abs(new_t - t[0]) < eps, t[0], new_t)
        new_t = np.where(np.abs(new_t - t[-1]) < eps, t[-1], new_t)
    return np.interp(new_t, t, v, left=0.0, right=0.0)


class C09Antenna(Machine):
    prop_id = "C09"
    name = "antenna"
    level = "exploration"
    budget = {"quick": 24000, "thorough": 800000}
    max_steps = 30
    rule = ("seeded histories (<=30 ops) of receive (single / polarised pair, overlapping, disjoint, "
            "nested windows) interleaved with waveforms / all_waveforms / is_hit / is_hit_mc_truth / "
            "full_waveform / is_hit_during / make_noise / signals queries, clear and clear(reset_noise), "
            "refused receives and a trigger collaborator that raises once; non-trivial = a "
            "query-receive-query or query-clear-query pattern, or a fault, occurs; distinct = history digest")
    components = {"real": ["pyrex.Antenna (threshold-trigger subclass)", "pyrex.DipoleAntenna",
                           "pyrex.AntennaSystem (harness FIR front end)", "FFTThermalNoise master",
                           "numpy.random via PRNG seam"],
                  "stub": []}
    assumptions = ["antenna.signals[k] as produced by apply_response is taken as given (C08 is not re-checked)",
                   "a per-hit waveform may be the superposition of any prefix of the reception history "
                   "that contains its own hit (pyrex freezes it at first query; recomputing is equally valid)",
                   "front ends are causal FIR filters no longer than the lead-in; all windows of a system "
                   "share its sample step", "nothing is required of the noise after a reset except a new epoch"]
    required_counters = ("probe.query_receive_query", "fault.receive_refused", "fault.trigger_raised",
                         "op.clear", "probe.noise_time_reobserved", "op.q_full")

    # ------------------------------------------------------------------
    def draw_config(self, rng):
        kind = rng.pick(["antenna", "antenna", "dipole", "system", "system"])
        dt = rng.pick([1e-9, 0.5e-9])
        cfg = {"n_steps": rng.pick([5, 8, 12, 20, 30]), "kind": kind, "dt": dt,
               "noisy": rng.chance(0.5), "threshold": rng.pick([0.3, 0.8, 2.0]),
               "n": rng.pick([16, 32, 64]), "noise_rms": rng.pick([0.05, 0.4]),
               "unique": rng.pick([1, 3, 10])}
        if kind == "system":
            lead = rng.pick([0, 3, 25, 25.5])
            cfg["lead_in"] = lead
            if lead == 0:
                cfg["taps"] = rng.pick([[1.0], [2.0], [-0.5]])
            elif lead >= 25 and rng.chance(0.4):
                # a delay line defined in *time* (not in samples): windows of this system may
                # use two different sample steps
                cfg["taps"] = [1.0]
                cfg["delay_steps"] = rng.pick([2, 4, 6, 2.4, 3.3, 5.25])
                # sometimes a lead-in that is only just long enough for the delay line
                cfg["lead_in"] = rng.pick([cfg["delay_steps"] + 1, 25])
                if cfg["delay_steps"] != int(cfg["delay_steps"]):
                    # a delay that is not a whole number of samples (the front end interpolates):
                    # exact as long as every signal and window of the run shares one sample grid;
                    # the lead-in may be exactly as long as the delay
                    cfg["frac_delay"] = True
                    cfg["lead_in"] = rng.pick([cfg["delay_steps"], cfg["delay_steps"], cfg["delay_steps"] + 1, 25])
            else:
                cfg["taps"] = rng.pick([[1.0], [0.5], [0.0, 1.0], [0.25, 0.5, 0.25], [1.0, -1.0]])
        if kind == "dipole":
            cfg["threshold"] = rng.pick([1e-7, 5e-6])
        return cfg

    def setup(self, cfg):
        import pyrex
        P = self.pyrex = pyrex
        self.cfg = cfg
        dt = cfg["dt"]
        thr = cfg["threshold"]
        machine = self
        self.trigger_fault_at = None   # raise on the n-th trigger call from now
        self.trigger_calls = 0

        class ThrAntenna(P.Antenna):
            def trigger(self, signal):
                machine.trigger_calls += 1
                if machine.trigger_fault_at is not None:
                    machine.trigger_fault_at -= 1
                    if machine.trigger_fault_at <= 0:
                        machine.trigger_fault_at = None
                        raise seams.InjectedFault("trigger collaborator failed")
                return bool(np.max(np.abs(signal.values)) > thr)

        if cfg["kind"] == "dipole":
            ant = P.DipoleAntenna(name="d", position=(0, 0, -100), center_frequency=250e6,
                                  bandwidth=300e6, temperature=300, resistance=100,
                                  orientation=(0, 0, 1), trigger_threshold=thr,
                                  noisy=cfg["noisy"], unique_noise_waveforms=cfg["unique"])
            self.trig = lambda vals: bool(np.max(np.abs(vals)) > thr)
            self.obj = ant
            self.base = ant
            self.taps = [1.0]
        else:
            ant = ThrAntenna(position=(0, 0, -100), noisy=cfg["noisy"], freq_range=(0.05 / dt, 0.4 / dt),
                             noise_rms=cfg["noise_rms"], unique_noise_waveforms=cfg["unique"])
            self.trig = lambda vals: bool(np.max(np.abs(vals)) > thr)
            self.base = ant
            if cfg["kind"] == "system":
                taps = list(cfg["taps"])
                delay_s = cfg.get("delay_steps", 0) * dt

                class FIRSystem(P.AntennaSystem):
                    lead_in_time = cfg["lead_in"] * dt

                    def front_end(self, signal):
                        x = np.asarray(signal.values, dtype=float)
                        y = np.zeros(len(x))
                        if delay_s and cfg.get("frac_delay"):
                            y = np.interp(np.asarray(signal.times, dtype=float) - delay_s,
                                          np.asarray(signal.times, dtype=float), x, left=0.0, right=0.0)
                            return P.Signal(signal.times, y, value_type=signal.value_type)
                        if delay_s:
                            n = int(round(delay_s / (signal.times[1] - signal.times[0])))
                            if n < len(x):
                                y[n:] = x[:len(x) - n]
                            return P.Signal(signal.times, y, value_type=signal.value_type)
                        for j, h in enumerate(taps):
                            if j < len(x):
                                y[j:] += h * x[:len(x) - j]
                        return P.Signal(signal.times, y, value_type=signal.value_type)

                self.obj = FIRSystem(ant)
                self.taps = taps
                self.delay_s = delay_s
            else:
                self.obj = ant
                self.taps = [1.0]
        self.t_ref = 0.0
        if not hasattr(self, "delay_s"):
            self.delay_s = 0.0
        # model
        self.sigs = []          # processed antenna signals: (times, values)
        self.noise_map = {}     # absolute-time key -> observed (front-end processed) noise value
        self.noise_rms_seen = 0.0
        self.epoch = 0
        self.queried_since_change = False
        self.changed_since_query = False
        self.any_query = False

    # ------------------------------------------------------------------
    def _window_spec(self, rng, kind=None):
        n = self.cfg["n"]
        kind = kind or rng.pick(["base", "overlap", "nested", "disjoint", "far", "half", "long"])
        if kind == "long":
            return {"k0": rng.randint(-n, 0), "m": n * rng.pick([3, 12, 25]), "frac": 0}
        if kind == "base":
            return {"k0": 0, "m": n, "frac": 0}
        if kind == "overlap":
            return {"k0": rng.randint(-n // 2, n // 2), "m": n, "frac": 0}
        if kind == "nested":
            a = rng.randint(1, n // 2)
            return {"k0": a, "m": max(4, n // 2 - 1), "frac": 0}
        if kind == "disjoint":
            return {"k0": rng.pick([2 * n + 3, -2 * n]), "m": n, "frac": 0}
        if kind == "far":
            return {"k0": 40 * n, "m": rng.pick([n, n // 2]), "frac": 0}
        return {"k0": rng.randint(-n // 2, n // 2), "m": n, "frac": rng.pick([1, 2, 3])}

    def _times(self, w):
        dt = self.cfg["dt"]
        if self.cfg.get("frac_delay"):
            # one sample grid for the whole run
            return self.t_ref + dt * (w["k0"] + np.arange(w["m"]))
        step = 0.5 if w.get("fine") else 1.0
        return self.t_ref + dt * (w["k0"] + w["frac"] / QUARTER + step * np.arange(w["m"]))

    def draw_op(self, rng):
        kind = self.cfg["kind"]
        ops = [("receive", 3.0), ("q_all", 1.0), ("q_wave", 1.0), ("q_hit", 1.0), ("q_full", 1.5),
               ("q_during", 0.6), ("q_noise", 0.8), ("q_mc", 0.4), ("clear", 0.7),
               ("bad_receive", 0.5), ("trigger_fault", 0.4)]
        if kind == "system":
            ops.append(("q_signals", 1.0))
        k = rng.weighted(ops)
        if k == "receive":
            w = self._window_spec(rng)
            if kind == "system":
                w["frac"] = w["frac"] if rng.chance(0.3) else 0
                if self.cfg.get("delay_steps") and rng.chance(0.4):
                    w["fine"] = True
                    w["frac"] = 0
            # (an all-zero signal - e.g. cross-polarised - is still a received signal)
            op = {"op": "receive", "w": w, "amp": rng.pick([0.1, 0.5, 1.0, 3.0, 1.0, 0.5, 0.0]),
                  "center": rng.random(), "width": rng.pick([1.5, 4.0, 10.0]),
                  "vtype": rng.pick(["voltage", "field"]), "pair": rng.chance(0.3),
                  "direction": rng.pick([None, [1, 0, 0.3], [0.2, -1, 0.5]]),
                  "sharp": rng.chance(0.4), "caller_edits": rng.chance(0.25)}
            if self.cfg["kind"] == "dipole":
                op["amp"] *= 1e-5
            return op
        if k in ("q_full", "q_during", "q_noise"):
            w = self._window_spec(rng)
            if kind == "system":
                w["frac"] = 0 if rng.chance(0.8) else w["frac"]
                if self.cfg.get("delay_steps") and rng.chance(0.5):
                    w["fine"] = True
                    w["frac"] = 0
            return {"op": k, "w": w}
        if k == "clear":
            return {"op": "clear", "reset_noise": rng.chance(0.4),
                    "spelling": rng.pick(["bool", "bool", "numpy", "int"]), "positional": rng.chance(0.3)}
        if k == "bad_receive":
            return {"op": "bad_receive", "how": rng.pick(["count", "count2", "type", "type_second", "grid_second"]),
                    "w": self._window_spec(rng, "base")}
        if k == "trigger_fault":
            return {"op": "trigger_fault", "nth": rng.randint(1, 3)}
        return {"op": k}

    # ------------------------------------------------------------------
    def _pulse(self, op):
        P = self.pyrex
        t = self._times(op["w"])
        c = t[0] + (t[-1] - t[0]) * op["center"]
        vals = op["amp"] * np.exp(-((t - c) / (op["width"] * self.cfg["dt"])) ** 2)
        # taper to exactly zero at both ends: a signal that jumps at the edge of
        # its window would make the answer depend on rounding-level differences
        # between time grids (zero outside, value inside)
        # (only antenna systems evaluate signals on a lead-in grid of their own)
        if self.cfg["kind"] == "system" or not op.get("sharp"):
            vals = vals * np.sin(np.pi * np.arange(len(t)) / max(len(t) - 1, 1)) ** 2
        vt = getattr(P.Signal.Type, op["vtype"])
        return P.Signal(t, vals, value_type=vt), t

    def _mark_query(self):
        if self.changed_since_query and self.any_query:
            self.count("probe.query_receive_query")
            self.nontrivial = True
        self.changed_since_query = False
        self.any_query = True

    def _mark_change(self):
        self.changed_since_query = True

    def _sum_signals(self, T, upto=None):
        """Front-end processed superposition of the model signals on window T."""
        T = np.asarray(T, dtype=float)
        dt = T[1] - T[0] if len(T) > 1 else self.cfg["dt"]
        sigs = self.sigs if upto is None else self.sigs[:upto]
        total = np.zeros(len(T))
        mag = 0.0
        for j, h in enumerate(self.taps):
            if h == 0:
                continue
            for (t, v) in sigs:
                total += h * interp_zero(T - j * dt - self.delay_s, t, v)
        for (t, v) in sigs:
            mag += float(np.max(np.abs(v))) if len(v) else 0.0
        return total, mag * sum(abs(h) for h in self.taps)

    def _key(self, t):
        return int(round((t - self.t_ref) / (self.cfg["dt"] / QUARTER)))

    def _observe_noise(self, T, vals, what):
        """Record noise values at absolute times; re-observations must agree."""
        rms = max(self.noise_rms_seen, float(np.sqrt(np.mean(vals ** 2))) if len(vals) else 0.0)
        self.noise_rms_seen = rms
        prev = getattr(self, "prev_noise_map", None)
        if prev:
            same = [abs(prev[self._key(t)] - v) <= 1e-12 * max(rms, 1e-30)
                    for t, v in zip(T, vals) if self._key(t) in prev]
            if len(same) >= 8:
                self.prev_noise_map = None
                self.count("probe.noise_compared_across_reset")
                if all(same):
                    raise Violation("C09:noise-not-reset",
                                    "after clear(reset_noise=<true>) the noise at %d absolute times seen before "
                                    "the reset is exactly the realisation of before the reset (%s)"
                                    % (len(same), what))
        for t, v in zip(T, vals):
            k = self._key(t)
            if k in self.noise_map:
                self.count("probe.noise_time_reobserved")
                old = self.noise_map[k]
                if abs(old - v) > 1e-9 * max(rms, abs(old), 1e-30) + self.sig_tol:
                    raise Violation("C09:noise-not-absolute-time",
                                    "noise at absolute time %.6g was %r earlier in this epoch, "
                                    "now %r (%s)" % (t, old, v, what))
            else:
                self.noise_map[k] = float(v)

    @property
    def sig_tol(self):
        return 1e-9 * sum(float(np.max(np.abs(v))) for _, v in self.sigs) if self.sigs else 0.0

    def _noisy(self):
        return bool(self.cfg["noisy"])

    # ------------------------------------------------------------------
    def apply(self, op):
        name = op["op"]
        self.count("op." + name)
        return getattr(self, "_op_" + name)(op)

    def _op_receive(self, op):
        P = self.pyrex
        sig, t = self._pulse(op)
        n_before = len(self.base.signals)
        if op["pair"]:
            sig2 = sig * 0.5
            args = ((sig, sig2),)
            kw = {"direction": op["direction"], "polarization": ([0, 0, 1], [0, 1, 0])}
        else:
            args = (sig,)
            kw = {"direction": op["direction"],
                  "polarization": [0, 0.6, 0.8] if op["direction"] is not None else None}
        st, _ = self.sut(self.obj.receive, *args, where="receive", **kw)
        if len(self.base.signals) != n_before + 1:
            raise Violation("C09:receive-count", "receive stored %d signals"
                            % (len(self.base.signals) - n_before))
        s = self.base.signals[-1]
        if len(s.times) != len(t) or not np.array_equal(np.asarray(s.times), t):
            raise Violation("C09:signal-grid", "stored signal is not on the received signal's time grid")
        self.sigs.append((np.array(s.times, dtype=float), np.array(s.values, dtype=float)))
        if op.get("caller_edits"):
            # the caller goes on using its own signal object (and the time array it built it
            # from): what the antenna has received is not affected
            sig *= -3.0
            sig.shift(7 * self.cfg["dt"])
            t += 1e-6
            self.count("probe.caller_edits_after_receive")
        self._mark_change()
        return ["receive", len(self.sigs)]

    def _op_bad_receive(self, op):
        P = self.pyrex
        t = self._times(op["w"])
        good = P.Signal(t, np.ones(len(t)), value_type=P.Signal.Type.voltage)
        bad = P.Signal(t, np.ones(len(t)), value_type=P.Signal.Type.power)
        how = op["how"]
        n_before = len(self.base.signals)
        if how == "count":
            call = lambda: self.obj.receive((good, good), polarization=([0, 0, 1],))
        elif how == "count2":
            call = lambda: self.obj.receive((good, good), polarization=None)
        elif how == "grid_second":
            other = P.Signal(t + 3 * self.cfg["dt"], np.ones(len(t)), value_type=P.Signal.Type.voltage)
            call = lambda: self.obj.receive((good, other), polarization=([0, 0, 1], [0, 1, 0]))
        elif how == "type":
            call = lambda: self.obj.receive(bad)
        else:
            call = lambda: self.obj.receive((good, bad), polarization=([0, 0, 1], [0, 1, 0]))
        st, res = self.sut(call, expect=(ValueError,), where="bad receive")
        self.count("fault.receive_refused")
        self.nontrivial = True
        if st != "raised":
            raise Violation("C09:bad-receive-accepted", "receive(%s) did not raise ValueError" % how)
        if len(self.base.signals) != n_before:
            raise Violation("C09:refused-receive-recorded",
                            "a refused receive changed the number of stored signals")
        return ["bad_receive", how]

    def _op_trigger_fault(self, op):
        if self.cfg["kind"] == "dipole":
            raise Skip("dipole uses its own trigger")
        self.trigger_fault_at = op["nth"]
        calls = self.trigger_calls
        st, res = self.sut(lambda: self.obj.waveforms, expect=(seams.InjectedFault,),
                           where="waveforms under trigger fault")
        fired = st == "raised"
        self.trigger_fault_at = None
        if fired:
            self.count("fault.trigger_raised")
            self.nontrivial = True
        self._mark_query()
        # the next query must re-evaluate what was never judged
        out = self._op_q_wave({"op": "q_wave"})
        return ["trigger_fault", fired, out]

    def _get_all(self):
        st, aw = self.sut(lambda: list(self.obj.all_waveforms), where="all_waveforms")
        return aw

    def _check_all_waveforms(self, aw):
        n = len(self.sigs)
        if len(aw) != n:
            raise Violation("C09:waveform-count",
                            "%d waveforms for %d received signals" % (len(aw), n))
        for k, w in enumerate(aw):
            t = self.sigs[k][0]
            if len(w.times) != len(t) or not np.array_equal(np.asarray(w.times, dtype=float), t):
                raise Violation("C09:waveform-grid",
                                "waveform %d is not on its signal's time grid" % k)
            if len(w.values) != len(w.times):
                raise Violation("C09:waveform-length", "waveform %d values/times lengths differ" % k)
            vals = np.asarray(w.values, dtype=float)
            if self._noisy():
                st, nz = self.sut(lambda: self.obj.make_noise(t), where="make_noise")
                noise = np.asarray(nz.values, dtype=float)
                self._observe_noise(t, noise, "waveform %d" % k)
                vals = vals - noise
            ok = False
            for p in range(k + 1, n + 1):
                exp, mag = self._sum_signals(t, upto=p)
                tol = 1e-9 * mag + (1e-9 * self.noise_rms_seen if self._noisy() else 0.0) + 1e-300
                if np.all(np.abs(vals - exp) <= tol):
                    ok = True
                    break
            if not ok:
                raise Violation("C09:waveform-values",
                                "waveform %d is not the (front-end processed) superposition of any "
                                "prefix of the %d received signals containing its own hit" % (k, n))

    def _op_q_all(self, op):
        aw = self._get_all()
        self._mark_query()
        self._check_all_waveforms(aw)
        return ["q_all", len(aw)]

    def _op_q_wave(self, op):
        st, wv = self.sut(lambda: list(self.obj.waveforms), where="waveforms")
        self._mark_query()
        aw = self._get_all()
        self._check_all_waveforms(aw)
        exp = [w for w in aw if self.trig(np.asarray(w.values, dtype=float))]
        if len(wv) != len(exp) or any(
                not (np.array_equal(a.times, b.times) and np.array_equal(a.values, b.values))
                for a, b in zip(wv, exp)):
            raise Violation("C09:triggered-waveforms",
                            "waveforms has %d entries; %d of the %d waveforms satisfy the trigger "
                            "(or the order/content differs)" % (len(wv), len(exp), len(aw)))
        return ["q_wave", len(wv), len(aw)]

    def _op_q_hit(self, op):
        st, hit = self.sut(lambda: self.obj.is_hit, where="is_hit")
        self._mark_query()
        st, wv = self.sut(lambda: list(self.obj.waveforms), where="waveforms")
        if bool(hit) != (len(wv) > 0):
            raise Violation("C09:is_hit", "is_hit=%s with %d triggered waveforms" % (hit, len(wv)))
        return ["q_hit", bool(hit)]

    def _op_q_mc(self, op):
        st, mc = self.sut(lambda: self.obj.is_hit_mc_truth, where="is_hit_mc_truth")
        self._mark_query()
        st, hit = self.sut(lambda: self.obj.is_hit, where="is_hit")
        if mc and not hit:
            raise Violation("C09:mc-truth", "is_hit_mc_truth is true while is_hit is false")
        if not self._noisy() and self.cfg["kind"] != "system" and bool(mc) != bool(hit):
            raise Violation("C09:mc-truth", "noiseless antenna: is_hit_mc_truth != is_hit")
        # a pure query: asking again (now that waveforms / is_hit have been asked) gives the same answer
        st, mc2 = self.sut(lambda: self.obj.is_hit_mc_truth, where="is_hit_mc_truth")
        if bool(mc2) != bool(mc):
            raise Violation("C09:mc-truth-order", "is_hit_mc_truth was %s when asked first and %s after "
                            "is_hit had been asked (nothing received in between)" % (bool(mc), bool(mc2)))
        return ["q_mc", bool(mc)]

    def _op_q_full(self, op):
        T = self._times(op["w"])
        st, fw = self.sut(lambda: self.obj.full_waveform(T), where="full_waveform")
        self._mark_query()
        if len(fw.times) != len(T) or not np.array_equal(np.asarray(fw.times, dtype=float), T):
            raise Violation("C09:full-waveform-grid", "full_waveform is not on the requested window")
        vals = np.asarray(fw.values, dtype=float)
        exp, mag = self._sum_signals(T)
        if self._noisy():
            self._observe_noise(T, vals - exp, "full_waveform")
        else:
            tol = 1e-9 * mag + 1e-300
            bad = ~(np.abs(vals - exp) <= tol)
            if np.any(bad):
                k = int(np.argmax(bad))
                raise Violation("C09:full-waveform-values",
                                "noiseless full_waveform[%d]=%r, superposition of the %d received "
                                "signals gives %r" % (k, vals[k], len(self.sigs), exp[k]))
        return ["q_full", len(T)]

    def _op_q_during(self, op):
        T = self._times(op["w"])
        st, hit = self.sut(lambda: self.obj.is_hit_during(T), where="is_hit_during")
        self._mark_query()
        st, fw = self.sut(lambda: self.obj.full_waveform(T), where="full_waveform")
        want = self.trig(np.asarray(fw.values, dtype=float))
        if bool(hit) != want:
            raise Violation("C09:is_hit_during", "is_hit_during=%s, trigger(full_waveform)=%s" % (hit, want))
        return ["q_during", bool(hit)]

    def _op_q_noise(self, op):
        T = self._times(op["w"])
        st, nz = self.sut(lambda: self.obj.make_noise(T), where="make_noise")
        if len(nz.times) != len(T) or not np.array_equal(np.asarray(nz.times, dtype=float), T):
            raise Violation("C09:noise-grid", "make_noise is not on the requested window")
        if self._noisy():
            self._observe_noise(T, np.asarray(nz.values, dtype=float), "make_noise")
        return ["q_noise", len(T)]

    def _op_q_signals(self, op):
        if self.cfg["kind"] != "system":
            raise Skip("not a system")
        st, ss = self.sut(lambda: list(self.obj.signals), where="system.signals")
        self._mark_query()
        if len(ss) != len(self.sigs):
            raise Violation("C09:system-signal-count", "%d processed signals for %d received"
                            % (len(ss), len(self.sigs)))
        for k, s in enumerate(ss):
            t, v = self.sigs[k]
            if not np.array_equal(np.asarray(s.times, dtype=float), t):
                raise Violation("C09:system-signal-grid", "processed signal %d changed its time grid" % k)
            dt = t[1] - t[0]
            exp = np.zeros(len(t))
            for j, h in enumerate(self.taps):
                exp += h * interp_zero(t - j * dt - self.delay_s, t, v)
            tol = 1e-9 * float(np.max(np.abs(v))) * sum(abs(h) for h in self.taps) + 1e-300
            if np.any(np.abs(np.asarray(s.values, dtype=float) - exp) > tol):
                raise Violation("C09:system-signal-values",
                                "processed signal %d is not the front-end output of received signal %d"
                                % (k, k))
        return ["q_signals", len(ss)]

    def _op_clear(self, op):
        flag = op["reset_noise"]
        if flag and op.get("spelling") == "numpy":
            flag = np.bool_(True)       # e.g. the result of np.any(...)
        elif flag and op.get("spelling") == "int":
            flag = 1
        if op.get("positional"):
            st, _ = self.sut(lambda: self.obj.clear(flag), where="clear")
        else:
            st, _ = self.sut(lambda: self.obj.clear(reset_noise=flag), where="clear")
        had = len(self.sigs)
        self.sigs = []
        if op["reset_noise"]:
            # the realisation of the previous epoch: the one seen after an explicit reset is a new one
            if len(self.noise_map) >= 8:
                self.prev_noise_map = self.noise_map
            self.noise_map = {}
            self.noise_rms_seen = 0.0
            self.epoch += 1
        if len(self.base.signals) != 0:
            raise Violation("C09:clear", "clear left %d signals" % len(self.base.signals))
        self._mark_change()
        # empty state is observable without touching incremental caches' order:
        # everything is empty, so these queries freeze nothing
        st, state = self.sut(lambda: (list(self.obj.all_waveforms), list(self.obj.waveforms),
                                      self.obj.is_hit), where="queries after clear")
        if state[0] or state[1] or state[2]:
            raise Violation("C09:clear", "after clear: %d waveforms, %d triggered, is_hit=%s"
                            % (len(state[0]), len(state[1]), state[2]))
        if self.cfg["kind"] == "system" and len(self.obj.signals) != 0:
            raise Violation("C09:clear", "after clear the system still lists processed signals")
        if had:
            self.nontrivial = True
        return ["clear", had]

    def finish(self):
        out = [self._op_q_wave({"op": "q_wave"}), self._op_q_hit({"op": "q_hit"})]
        if self.cfg["kind"] == "system":
            out.append(self._op_q_signals({"op": "q_signals"}))
        out.append(self._op_q_full({"op": "q_full", "w": {"k0": 0, "m": self.cfg["n"], "frac": 0}}))
        return out


MACHINES = [C09Antenna]
