"""C04 - signals keep times/values aligned, copy independently, combine pointwise.

Simulated actors: a pool of signal slots (real pyrex objects) and a pool of
caller-owned buffers (arrays / lists handed to pyrex as times / values /
new_times).  The schedule is the order in which one client constructs,
copies, adds, scales, shifts, re-grids *and scribbles over buffers and signal
arrays*; the oracle is a reference model per slot and per buffer plus a
no-shared-memory invariant evaluated after every step.
"""
import math
import operator

import numpy as np

from sim.engine import Machine, Violation, Skip
from sim import seams

N_SLOTS = 6
N_BUFS = 6
UNDEF, VOLT, FIELD, POWER = 0, 1, 2, 3


def make_function(spec):
    kind = spec["f"]
    if kind == "cos":
        w, ph = spec["w"], spec["ph"]
        return lambda t: np.cos(w * t + ph)
    if kind == "gauss":
        c, w = spec["c"], spec["w"]
        return lambda t: np.exp(-((t - c) / w) ** 2)
    if kind == "ramp":
        a, b = spec["a"], spec["b"]
        return lambda t: a * t + b
    if kind == "scalar_sin":
        w = spec["w"]
        return lambda t: math.sin(w * t)  # TypeError on arrays -> per-sample path
    if kind == "scalar_causal":
        # scalar-only and causal: the int 0 before c, a (continuous) float ramp after it
        c, w = spec["c"], spec["w"]
        return lambda t: 0 if float(t) < c else (float(t) - c) / w
    raise ValueError(kind)


def eval_function(fn, ts):
    try:
        return np.asarray(fn(ts), dtype=float)
    except (TypeError, ValueError):
        return np.asarray([fn(t) for t in ts], dtype=float)


def own_interp(new_t, t, v):
    """Independent piecewise-linear interpolation, zero outside the span."""
    new_t = np.asarray(new_t, dtype=float)
    t = np.asarray(t, dtype=float)
    v = np.asarray(v, dtype=float)
    out = np.zeros(len(new_t))
    if len(t) == 0:
        return out
    for i, x in enumerate(new_t):
        if x < t[0] or x > t[-1]:
            out[i] = 0.0
            continue
        j = int(np.searchsorted(t, x, side="right")) - 1
        if j >= len(t) - 1:
            out[i] = v[-1] if x == t[-1] else 0.0
            continue
        if x == t[j]:
            out[i] = v[j]
        else:
            frac = (x - t[j]) / (t[j + 1] - t[j])
            out[i] = v[j] + frac * (v[j + 1] - v[j])
    return out


class SlotModel:
    """Reference model of one signal slot."""

    def __init__(self, kind, times, vtype, values=None, comps=None):
        self.kind = kind            # 'S' sampled, 'E' empty, 'F' function
        self.times = np.array(times)
        self.vtype = vtype
        self.values = None if values is None else np.array(values)
        self.comps = comps          # list of dicts for 'F'
        self.tol_scale = 0.0        # magnitude of the data the values derive from
        self.abs_tol = 0.0          # absolute slack inherited from function-backed operands
        self.max_span = float(self.times[-1] - self.times[0]) if len(self.times) > 1 else 0.0

    def clone(self):
        new = SlotModel(self.kind, self.times.copy(), self.vtype,
                        None if self.values is None else self.values.copy(),
                        None if self.comps is None else [dict(c) for c in self.comps])
        new.tol_scale = self.tol_scale
        new.abs_tol = self.abs_tol
        new.max_span = self.max_span
        return new

    def f_tolerance(self):
        """Tolerance of a function-backed slot (call after expected_values)."""
        if self.kind == "X":
            return 1e-9 * self.comp_mag + self.abs_tol + 1e-300
        tol = 1e-11 * self.comp_mag + 1e-300
        # conditioning of f(t - t0) when |t| is huge compared with the step: an
        # argument error of a few ulp(|t|) is unavoidable
        tmax = float(np.max(np.abs(self.times))) if len(self.times) else 0.0
        tmax = max([tmax] + [abs(float(c["t0"])) for c in self.comps])
        if len(self.times) > 1:
            dts = np.abs(np.diff(np.asarray(self.times, dtype=float)))
            lip = self.comp_lip / max(float(np.min(dts)), 1e-300)
            tol += 64 * 2.3e-16 * tmax * lip
        else:
            tol += 1e-9 * self.comp_mag
        return tol

    def expected_values(self):
        if self.kind == "S":
            return self.values
        if self.kind == "X":
            # filtered function-backed signal: only its *independence* is modelled
            # (snapshot of its own values, refreshed when the slot itself is operated on)
            self.comp_mag = float(np.max(np.abs(self.values))) if len(self.values) else 0.0
            self.comp_lip = 0.0
            return self.values
        if self.kind == "E":
            return np.zeros(len(self.times))
        total = np.zeros(len(self.times))
        self.comp_mag = 0.0     # sum of component magnitudes
        self.comp_lip = 0.0     # sum of component max |increments|
        for c in self.comps:
            if c.get("opaque"):
                rel = self.times - c["t0"]
                base_t, base_v = c["base_t"], c["base_v"]
                if len(rel) != len(base_t) or not np.allclose(
                        rel, base_t, rtol=0, atol=1e-9 * (abs(base_t[-1] - base_t[0]) + 1e-30)):
                    raise Skip("opaque component off its grid")
                part = c["factor"] * base_v
            else:
                part = c["factor"] * eval_function(c["fn"], self.times - c["t0"])
            total = total + part
            if len(part):
                self.comp_mag += float(np.max(np.abs(part)))
            if len(part) > 1:
                self.comp_lip += float(np.max(np.abs(np.diff(part))))
        return total

    @property
    def has_opaque(self):
        return self.kind == "F" and any(c.get("opaque") for c in self.comps)

    @property
    def function_backed(self):
        return self.kind in ("F", "X")


def coerce(ta, tb):
    """Result type of a+b or None if refused."""
    if ta != UNDEF and tb != UNDEF and ta != tb:
        return None
    return tb if ta == UNDEF else ta


class C04Signals(Machine):
    prop_id = "C04"
    name = "signals"
    max_steps = 40
    level = "exploration"
    budget = {"quick": 40000, "thorough": 1500000}
    rule = ("seeded histories of construct/copy/add/sum/scale/shift/with_times over <=6 signal "
            "slots and <=6 caller-owned buffers; non-trivial = the history contains a refused "
            "operation, or a caller-buffer / signal-array mutation issued while derived signals "
            "are alive; distinct = distinct blake2b digest of (config, op outcomes)")
    components = {"real": ["pyrex.Signal", "pyrex.EmptySignal", "pyrex.FunctionSignal",
                           "GaussianNoise", "FFTThermalNoise", "FullThermalNoise",
                           "numpy.random via PRNG seam"],
                  "stub": []}
    assumptions = ["resample() excluded (Fourier resampling is not in the statement)",
                   "thermal-noise re-gridding is checked under C17, not here",
                   "tolerance 1e-12 relative for sampled slots, 1e-11 for function-backed slots"]
    required_counters = ("fault.add_refused", "fault.mutate_buffer", "fault.mutate_signal",
                         "op.with_times", "probe.filtered_slots")

    # ------------------------------------------------------------------
    def draw_config(self, rng):
        scale = rng.pick([1e-9, 1e-9, 1e-6, 1.0, 1e3])
        grids = []
        for _ in range(rng.randint(1, 3)):
            n = rng.pick([1, 2, 3, 4, 5, 8, 16, 33, 64])
            dt = float("%.4g" % (scale * rng.pick([0.1, 0.5, 1.0, 2.0, 7.0])))
            t0 = float("%.6g" % (scale * rng.pick([0, 0, -3.5, 10, -1e4, 1e6, 123.456])))
            grids.append({"t0": t0, "dt": dt, "n": n})
        w = {k: rng.random() for k in
             ("buf", "construct", "copy", "add", "radd", "scale", "iscale",
              "shift", "with_times", "mutate_buffer", "mutate_signal", "sum", "filter", "set_buffers")}
        w["construct"] += 1.0
        w["buf"] += 0.5
        return {"n_steps": rng.pick([3, 5, 8, 12, 20, 30, 40]),
                "grids": grids, "weights": w, "scale": scale}

    def setup(self, cfg):
        import pyrex
        self.pyrex = pyrex
        self.cfg = cfg
        self.slots = [None] * N_SLOTS     # real objects
        self.models = [None] * N_SLOTS
        self.bufs = [None] * N_BUFS       # caller-owned objects (ndarray / list)
        self.buf_models = [None] * N_BUFS  # private copies (lists of python numbers)
        self.mutations_seen = False
        self.derived_seen = False

    # ------------------------------------------------------------------
    # generation
    # ------------------------------------------------------------------
    def _grid_values(self, g):
        return [g["t0"] + g["dt"] * i for i in range(g["n"])]

    def _rand_values(self, rng, n):
        return [float("%.5g" % rng.uniform(-5, 5)) for _ in range(n)]

    def draw_op(self, rng):
        cfg = self.cfg
        live = [i for i, s in enumerate(self.slots) if s is not None]
        live_b = [i for i, b in enumerate(self.bufs) if b is not None]
        choices = [("buf", cfg["weights"]["buf"]),
                   ("construct", cfg["weights"]["construct"])]
        if live:
            for k in ("copy", "add", "radd", "scale", "iscale", "shift",
                      "with_times", "mutate_signal", "sum", "filter", "set_buffers"):
                choices.append((k, cfg["weights"].get(k, 0.5)))
        if live_b:
            choices.append(("mutate_buffer", cfg["weights"]["mutate_buffer"]))
        kind = rng.weighted(choices)
        g = rng.pick(cfg["grids"])
        if kind == "buf":
            mode = rng.pick(["grid", "grid", "values", "window", "irregular"])
            if mode == "grid":
                data = self._grid_values(g)
            elif mode == "values":
                n = max(0, g["n"] + rng.randint(-3, 3))
                data = self._rand_values(rng, n)
            elif mode == "window":
                # a window overlapping / containing / disjoint from the grid
                off = rng.pick([0, 0, 1, -1, 2, -3, 0.5, 100])
                n = max(1, g["n"] + rng.randint(-2, 3))
                data = [g["t0"] + g["dt"] * (i + off) for i in range(n)]
            else:
                n = rng.randint(1, 8)
                acc = g["t0"]
                data = []
                for _ in range(n):
                    data.append(float("%.8g" % acc))
                    acc += g["dt"] * rng.pick([0.5, 1, 1.5, 3])
            as_int = rng.chance(0.08)
            if as_int:
                data = [int(round(x)) for x in data]
                data = sorted(set(data)) if mode != "values" else data
            return {"op": "buf", "b": rng.randrange(N_BUFS), "data": data,
                    "as": rng.pick(["ndarray", "ndarray", "list"]),
                    "int": as_int}
        if kind == "construct":
            ckind = rng.pick(["signal", "signal", "signal", "empty", "function",
                              "function", "gauss_noise", "fft_noise", "full_noise"])
            op = {"op": "construct", "slot": rng.randrange(N_SLOTS), "kind": ckind,
                  "vtype": rng.pick([None, 0, 1, 2, 3, 1, 2]),
                  "vt_spelling": rng.pick(["enum", "enum", "name", "int"])}
            tb = [b for b in live_b]
            if tb and rng.chance(0.6):
                op["times_buf"] = rng.pick(tb)
            else:
                op["times"] = self._grid_values(g)
            n = len(op.get("times", [])) or g["n"]
            if ckind == "signal":
                if live_b and rng.chance(0.5):
                    op["values_buf"] = rng.pick(live_b)
                else:
                    op["values"] = self._rand_values(rng, max(0, n + rng.randint(-3, 3)))
            elif ckind == "function":
                op["fn"] = self._rand_fn(rng, g)
            elif ckind in ("fft_noise", "full_noise"):
                op["band"] = [0.05 / g["dt"], 0.4 / g["dt"]]
                op["rms"] = float("%.3g" % rng.uniform(0.1, 3))
            elif ckind == "gauss_noise":
                op["sigma"] = float("%.3g" % rng.uniform(0.1, 3))
            return op
        if kind == "copy":
            return {"op": "copy", "src": rng.pick(live), "dst": rng.randrange(N_SLOTS)}
        if kind == "add":
            return {"op": "add", "a": rng.pick(live), "b": rng.pick(live),
                    "dst": rng.randrange(N_SLOTS)}
        if kind == "radd":
            return {"op": "radd", "a": rng.pick(live),
                    "left": rng.pick([0, 0, 0, 1, 0.0, "x", None])}
        if kind == "sum":
            k = rng.randint(1, 3)
            return {"op": "sum", "items": [rng.pick(live) for _ in range(k)],
                    "dst": rng.randrange(N_SLOTS)}
        if kind in ("scale", "iscale"):
            k = rng.pick([2, 0.5, -1, 0, 3.25, 1e-9, 1e9, 7, -0.125, 3])
            how = rng.pick(["mul", "rmul", "div"]) if kind == "scale" else rng.pick(["imul", "idiv"])
            if how in ("div", "idiv") and k == 0:
                k = 4
            op = {"op": "scale", "a": rng.pick(live), "how": how, "k": k}
            if kind == "scale":
                op["dst"] = rng.randrange(N_SLOTS)
            return op
        if kind == "shift":
            dt = rng.pick([g["dt"], -g["dt"], 3 * g["dt"], 0.37 * g["dt"], 0, 1e3 * g["dt"], 2])
            return {"op": "shift", "a": rng.pick(live), "dt": dt}
        if kind == "with_times":
            op = {"op": "with_times", "a": rng.pick(live), "dst": rng.randrange(N_SLOTS)}
            if live_b and rng.chance(0.7):
                op["buf"] = rng.pick(live_b)
            else:
                off = rng.pick([0, 1, -1, 0.5, 2, 100])
                n = max(1, g["n"] + rng.randint(-2, 3))
                op["times"] = [g["t0"] + g["dt"] * (i + off) for i in range(n)]
            return op
        if kind == "set_buffers":
            return {"op": "set_buffers", "a": rng.pick(live),
                    "leading": rng.pick([None, 0, g["dt"] * rng.pick([1, 3, 5])]),
                    "trailing": rng.pick([None, 0, g["dt"] * rng.pick([1, 2, 6])]),
                    "force": rng.chance(0.4)}
        if kind == "filter":
            return {"op": "filter", "a": rng.pick(live), "fc": float("%.4g" % (rng.uniform(0.03, 0.3) / g["dt"])),
                    "force_real": rng.chance(0.7)}
        if kind == "mutate_buffer":
            return {"op": "mutate_buffer", "b": rng.pick(live_b),
                    "idx": rng.randrange(64),
                    "val": float("%.4g" % (rng.uniform(-9, 9) * (cfg["scale"] if rng.chance(0.7) else 1))),
                    "how": rng.pick(["set", "add", "scale_all"])}
        if kind == "mutate_signal":
            return {"op": "mutate_signal", "a": rng.pick(live),
                    "which": rng.pick(["values", "times"]), "idx": rng.randrange(64),
                    "val": float("%.4g" % rng.uniform(-9, 9))}
        raise AssertionError(kind)

    def _rand_fn(self, rng, g):
        span = g["dt"] * max(g["n"], 2)
        f = rng.pick(["cos", "gauss", "ramp", "scalar_sin", "scalar_causal"])
        if f == "scalar_causal":
            return {"f": "scalar_causal", "c": float("%.5g" % (g["t0"] + span * rng.uniform(0.1, 0.6))),
                    "w": float("%.5g" % (span * rng.uniform(0.05, 0.3)))}
        if f == "cos":
            return {"f": "cos", "w": float("%.5g" % (rng.uniform(0.5, 20) / span)),
                    "ph": float("%.3g" % rng.uniform(0, 6))}
        if f == "gauss":
            return {"f": "gauss", "c": float("%.5g" % (g["t0"] + span * rng.random())),
                    "w": float("%.5g" % (span * rng.uniform(0.05, 0.5)))}
        if f == "ramp":
            return {"f": "ramp", "a": float("%.4g" % (rng.uniform(-2, 2) / span)),
                    "b": float("%.3g" % rng.uniform(-1, 1))}
        return {"f": "scalar_sin", "w": float("%.5g" % (rng.uniform(0.5, 20) / span))}

    # ------------------------------------------------------------------
    # helpers
    # ------------------------------------------------------------------
    def _need_slot(self, i):
        if i is None or i >= N_SLOTS or self.slots[i] is None:
            raise Skip("slot empty")
        return self.slots[i], self.models[i]

    def _need_buf(self, i):
        if i is None or i >= N_BUFS or self.bufs[i] is None:
            raise Skip("buffer empty")
        return self.bufs[i], self.buf_models[i]

    def _vt(self, v, spelling="enum"):
        """The value type in one of its documented spellings (enum member, its name, its value)."""
        S = self.pyrex.Signal
        if v is None:
            return None
        if spelling == "name":
            return S.Type(v).name
        if spelling == "int":
            return int(v)
        return S.Type(v)

    def _store(self, dst, sig, model):
        for i, s in enumerate(self.slots):
            if s is sig:
                raise Violation("C04:result-is-operand",
                                "operation returned the operand object itself (slot %d)" % i)
        self.slots[dst] = sig
        self.models[dst] = model

    def _snapshot(self):
        """State digests of everything, to verify 'refused' leaves all unchanged."""
        return None  # state is verified against the models after every step

    # ------------------------------------------------------------------
    # application
    # ------------------------------------------------------------------
    def apply(self, op):
        name = op["op"]
        self.count("op." + name)
        out = getattr(self, "_op_" + name)(op)
        self._check_all(op)
        return out

    def _op_buf(self, op):
        data = op["data"]
        if op.get("int"):
            priv = [int(x) for x in data]
        else:
            priv = [float(x) for x in data]
        if op["as"] == "ndarray":
            obj = np.array(priv)
        else:
            obj = list(priv)
        self.bufs[op["b"]] = obj
        self.buf_models[op["b"]] = list(priv)
        return len(priv)

    def _times_arg(self, op, key_buf="times_buf", key_inline="times"):
        if key_buf in op:
            obj, priv = self._need_buf(op[key_buf])
            return obj, list(priv)
        ts = [float(x) for x in op[key_inline]]
        return np.array(ts), ts

    def _op_construct(self, op):
        P = self.pyrex
        times_obj, times_priv = self._times_arg(op)
        n = len(times_priv)
        if n == 0:
            raise Skip("zero-length time grid")
        if n > 1 and np.any(np.diff(np.asarray(times_priv, dtype=float)) <= 0):
            raise Skip("time grids are strictly increasing")
        kind = op["kind"]
        vt = self._vt(op.get("vtype"), op.get("vt_spelling", "enum"))
        mvt = op.get("vtype") or UNDEF
        if kind == "signal":
            if "values_buf" in op:
                vobj, vpriv = self._need_buf(op["values_buf"])
                vpriv = list(vpriv)
            else:
                vpriv = [float(x) for x in op["values"]]
                vobj = np.array(vpriv) if op.get("slot", 0) % 2 == 0 else list(vpriv)
            st, sig = self.sut(P.Signal, times_obj, vobj, value_type=vt, where="Signal()")
            exp = (vpriv + [0.0] * (n - len(vpriv)))[:n]
            model = SlotModel("S", times_priv, mvt, values=np.array(exp, dtype=float) if exp else np.zeros(0))
            self._store(op["slot"], sig, model)
            return ["S", n, len(vpriv)]
        if kind == "empty":
            st, sig = self.sut(P.EmptySignal, times_obj, value_type=vt, where="EmptySignal()")
            self._store(op["slot"], sig, SlotModel("E", times_priv, mvt))
            return ["E", n]
        if kind == "function":
            fn = make_function(op["fn"])
            st, sig = self.sut(P.FunctionSignal, times_obj, fn, value_type=vt,
                               where="FunctionSignal()")
            model = SlotModel("F", times_priv, mvt,
                              comps=[{"fn": fn, "t0": 0.0, "factor": 1.0}])
            self._store(op["slot"], sig, model)
            return ["F", n]
        if kind == "gauss_noise":
            st, sig = self.sut(P.signals.GaussianNoise, times_obj, op["sigma"],
                               where="GaussianNoise()")
            vals = np.array(sig.values, dtype=float)
            if len(vals) != n:
                raise Violation("C04:length-mismatch", "GaussianNoise has %d values for %d times"
                                % (len(vals), n))
            self._store(op["slot"], sig, SlotModel("S", times_priv, VOLT, values=vals.copy()))
            return ["G", n]
        if kind in ("fft_noise", "full_noise"):
            if n < 4:
                raise Skip("grid too short for thermal noise")
            tarr = np.array(times_priv, dtype=float)
            d = np.diff(tarr)
            if not np.allclose(d, d[0], rtol=1e-6, atol=0) or d[0] <= 0:
                raise Skip("thermal noise needs a uniform grid")
            cls = P.signals.FFTThermalNoise if kind == "fft_noise" else P.signals.FullThermalNoise
            band = [0.05 / d[0], 0.4 / d[0]]
            st, sig = self.sut(cls, times_obj, band, rms_voltage=op["rms"],
                               where=cls.__name__)
            base_v = np.array(sig.values, dtype=float)
            model = SlotModel("F", times_priv, VOLT, comps=[{
                "opaque": True, "t0": 0.0, "factor": 1.0,
                "base_t": np.array(times_priv, dtype=float), "base_v": base_v.copy()}])
            self._store(op["slot"], sig, model)
            return ["N", n]
        raise AssertionError(kind)

    def _snapshot(self, sig, ma, vtype=None):
        """Model of a filtered function-backed signal: a snapshot of its own values."""
        st, tv = self.sut(lambda: (np.array(sig.times, dtype=float), np.array(sig.values, dtype=float)),
                          where="read")
        new = SlotModel("X", tv[0], ma.vtype if vtype is None else vtype, values=tv[1])
        new.max_span = max(new.max_span, ma.max_span)
        # slack inherited from cancelling operands stays with the lineage
        new.abs_tol = ma.abs_tol
        return new

    def _op_filter(self, op):
        a, ma = self._need_slot(op["a"])
        if not ma.function_backed or len(ma.times) < 4:
            raise Skip("filters are only applied to function-backed signals here (C05 covers sampled ones)")
        d = np.diff(np.asarray(ma.times, dtype=float))
        if np.any(d <= 0) or not np.allclose(d, d[0], rtol=1e-6, atol=0):
            raise Skip("filtering needs a uniform grid")
        fc = op["fc"]
        st, _ = self.sut(a.filter_frequencies, lambda f: 1 / (1 + 1j * np.asarray(f) / fc),
                         force_real=op["force_real"], where="filter_frequencies")
        self.models[op["a"]] = self._snapshot(a, ma)
        self.count("probe.filtered_slots")
        return ["filter"]

    def _op_set_buffers(self, op):
        """Buffer changes of one function-backed signal (the slot's own snapshot is
        refreshed; every other slot must stay as it was)."""
        P = self.pyrex
        a, ma = self._need_slot(op["a"])
        if not (ma.function_backed and isinstance(a, P.FunctionSignal)) or len(ma.times) < 2:
            raise Skip("only function-backed signals have buffers")
        d = np.diff(np.asarray(ma.times, dtype=float))
        if np.any(d <= 0):
            raise Skip("buffers need an increasing grid")
        st, _ = self.sut(a.set_buffers, leading=op["leading"], trailing=op["trailing"], force=op["force"],
                         where="set_buffers")
        if ma.kind == "X":
            self.models[op["a"]] = self._snapshot(a, ma)
        self.count("probe.set_buffers")
        return ["set_buffers"]

    def _op_copy(self, op):
        sig, model = self._need_slot(op["src"])
        st, new = self.sut(sig.copy, where="copy")
        self.derived_seen = True
        self._store(op["dst"], new, model.clone())
        return ["copy", model.kind]

    def _add_model(self, ma, mb):
        """Model of a+b: returns SlotModel or the expected exception type."""
        if not (len(ma.times) == len(mb.times) and np.array_equal(ma.times, mb.times)):
            return ValueError
        vt = coerce(ma.vtype, mb.vtype)
        if vt is None:
            return ValueError
        if "X" in (ma.kind, mb.kind):
            mag = 0.0
            for m in (ma, mb):
                ev = np.asarray(m.expected_values(), dtype=float)
                mag += (float(np.max(np.abs(ev))) if len(ev) else 0.0) + m.abs_tol * 1e9
            return ("snapshot", vt, max(ma.max_span, mb.max_span), mag)
        if ma.kind == "F" and mb.kind == "F":
            new = SlotModel("F", ma.times, vt, comps=[dict(c) for c in ma.comps] +
                            [dict(c) for c in mb.comps])
            new.max_span = max(ma.max_span, mb.max_span)
            return new
        if ma.kind == "E":
            r = mb.clone()
            r.vtype = vt
            return r
        if mb.kind == "E":
            r = ma.clone()
            r.vtype = vt
            return r
        new = SlotModel("S", ma.times, vt,
                        values=np.asarray(ma.expected_values(), dtype=float)
                        + np.asarray(mb.expected_values(), dtype=float))
        new.tol_scale = ma.tol_scale + mb.tol_scale
        # a function-backed operand brings its own evaluation slack along
        new.abs_tol = sum(m.f_tolerance() if m.kind == "F" else m.abs_tol for m in (ma, mb))
        new.max_span = max(ma.max_span, mb.max_span)
        return new

    def _op_add(self, op):
        a, ma = self._need_slot(op["a"])
        b, mb = self._need_slot(op["b"])
        exp = self._add_model(ma, mb)
        st, res = self.sut(operator.add, a, b, expect=(ValueError,), where="add")
        if exp is ValueError:
            self.count("fault.add_refused")
            self.nontrivial = True
            if st != "raised":
                raise Violation("C04:add-not-refused",
                                "adding signals with different grids or incompatible "
                                "value types did not raise")
            return ["add", "refused"]
        if st == "raised":
            raise Violation("C04:add-wrongly-refused", "valid addition raised %r" % (res,))
        self.derived_seen = True
        exp = self._resolve_snapshot(exp, res)
        self._store(op["dst"], res, exp)
        return ["add", ma.kind, mb.kind]

    def _resolve_snapshot(self, exp, res):
        """Sums involving a filtered operand are accepted as they are and
        tracked for independence from then on."""
        if isinstance(exp, tuple) and exp[0] == "snapshot":
            P = self.pyrex
            dummy = SlotModel("S", np.array(res.times, dtype=float), exp[1], values=np.zeros(len(res.times)))
            dummy.max_span = exp[2]
            if isinstance(res, P.FunctionSignal):
                new = self._snapshot(res, dummy, exp[1])
            else:
                new = SlotModel("S", np.array(res.times, dtype=float), exp[1],
                                values=np.array(res.values, dtype=float))
            # cancellation between operands: accuracy is relative to their magnitudes
            new.abs_tol = 1e-9 * exp[3]
            return new
        return exp

    def _op_radd(self, op):
        a, ma = self._need_slot(op["a"])
        left = op["left"]
        st, res = self.sut(operator.add, left, a, expect=(TypeError,), where="radd")
        if left == 0 and not isinstance(left, str) and left is not None:
            if st != "ok" or res is not a:
                raise Violation("C04:radd-zero", "0 + signal did not return the signal itself")
            return ["radd", "identity"]
        # only adding 0 may return the signal itself; anything else must either
        # be refused or produce a different object
        self.count("fault.radd_nonzero")
        if st == "ok" and res is a:
            raise Violation("C04:radd-nonzero-identity",
                            "%r + signal returned the signal itself" % (left,))
        return ["radd", st]

    def _op_sum(self, op):
        items = [self._need_slot(i) for i in op["items"]]
        exp = items[0][1]
        for _, m in items[1:]:
            if isinstance(exp, type):
                break
            if isinstance(exp, tuple):
                # a filtered operand earlier in the chain: only refusal rules apply further on
                probe = SlotModel("X", np.array(items[0][1].times), exp[1],
                                  values=np.zeros(len(items[0][1].times)))
                probe.abs_tol = 1e-9 * exp[3]
                exp = self._add_model(probe, m)
                continue
            exp = self._add_model(exp, m)
        st, res = self.sut(sum, [s for s, _ in items], expect=(ValueError,), where="sum")
        if isinstance(exp, type):
            self.count("fault.add_refused")
            if st != "raised":
                raise Violation("C04:add-not-refused", "sum over incompatible signals did not raise")
            return ["sum", "refused"]
        if st == "raised":
            raise Violation("C04:add-wrongly-refused", "valid sum raised %r" % (res,))
        if len(items) == 1:
            if res is not items[0][0]:
                raise Violation("C04:radd-zero", "sum([s]) did not return s itself")
            return ["sum", "identity"]
        self.derived_seen = True
        exp = self._resolve_snapshot(exp, res)
        self._store(op["dst"], res, exp)
        return ["sum", len(items)]

    def _op_scale(self, op):
        a, ma = self._need_slot(op["a"])
        k = op["k"]
        how = op["how"]
        numeric = isinstance(k, (int, float)) and not isinstance(k, bool)
        if not numeric:
            # the statement promises nothing about non-numeric factors
            raise Skip("non-numeric scale factors are not generated")
        fns = {"mul": lambda: a * k, "rmul": lambda: k * a, "div": lambda: a / k,
               "imul": lambda: operator.imul(a, k), "idiv": lambda: operator.itruediv(a, k)}
        st, res = self.sut(fns[how], expect=(TypeError, ValueError), where=how)
        if st == "raised":
            raise Violation("C04:scale-wrongly-refused", "%s by %r raised %r" % (how, k, res))
        new = ma.clone()
        fac = abs(1.0 / k) if how in ("div", "idiv") else abs(k)
        new.tol_scale = ma.tol_scale * fac
        new.abs_tol = ma.abs_tol * fac
        if new.kind in ("S", "X"):
            new.values = (np.asarray(ma.values) / k) if how in ("div", "idiv") \
                else (np.asarray(ma.values) * k)
        elif new.kind == "F":
            for c in new.comps:
                c["factor"] = (c["factor"] / k) if how in ("div", "idiv") else (c["factor"] * k)
        elif new.kind == "E" and how not in ("imul", "idiv"):
            # EmptySignal * k is an ordinary sampled signal of zeros
            new = SlotModel("S", ma.times, ma.vtype, values=np.zeros(len(ma.times)))
        if how in ("imul", "idiv"):
            # in-place: the slot keeps holding whatever the operator returned
            self.slots[op["a"]] = res
            self.models[op["a"]] = new
            return ["iscale", ma.kind]
        self.derived_seen = True
        self._store(op["dst"], res, new)
        return ["scale", ma.kind]

    def _op_shift(self, op):
        a, ma = self._need_slot(op["a"])
        dt = op["dt"]
        int_times = np.asarray(a.times).dtype.kind in "iu"
        st, res = self.sut(a.shift, dt, expect=(TypeError,), where="shift")
        if int_times and isinstance(dt, float):
            # numpy refuses the in-place cast; either outcome must keep alignment
            if st == "raised":
                self.count("fault.shift_refused")
                return ["shift", "refused"]
        if st == "raised":
            raise Violation("C04:shift-refused", "shift(%r) raised %r" % (dt, res))
        ma.times = ma.times + dt
        if ma.kind == "F":
            for c in ma.comps:
                c["t0"] = c["t0"] + dt
        if ma.kind == "X":
            # an operation on the slot itself: its snapshot is refreshed
            self.models[op["a"]] = self._snapshot(a, ma)
        return ["shift"]

    def _op_with_times(self, op):
        a, ma = self._need_slot(op["a"])
        if "buf" in op:
            tobj, tpriv = self._need_buf(op["buf"])
            tpriv = list(tpriv)
        else:
            tpriv = [float(x) for x in op["times"]]
            tobj = np.array(tpriv)
        if len(tpriv) == 0:
            raise Skip("empty new_times")
        if ma.has_opaque:
            raise Skip("thermal-noise re-gridding belongs to C17")
        if ma.kind == "X" and len(tpriv) < 2:
            raise Skip("a filtered signal needs a sample step (single-sample filtering is C05 territory)")
        if ma.function_backed and len(tpriv) > 1:
            d = np.diff(np.asarray(tpriv, dtype=float))
            if np.any(d <= 0):
                raise Skip("function signals are only re-gridded onto increasing grids")
            span = max(float(np.max(ma.times) - np.min(ma.times)) if len(ma.times) else 0.0, ma.max_span)
            if span / float(tpriv[1] - tpriv[0]) > 2e3:
                # contained windows make pyrex evaluate the function over the
                # whole old span on the new step: a cost problem, not a
                # correctness one - keep runs bounded
                raise Skip("old span / new step too large")
        if ma.kind == "S" and (len(ma.times) == 0 or np.any(np.diff(np.asarray(ma.times, dtype=float)) <= 0)):
            raise Skip("source grid not increasing")
        st, res = self.sut(a.with_times, tobj, where="with_times")
        if ma.kind == "S":
            new = SlotModel("S", tpriv, ma.vtype, values=own_interp(tpriv, ma.times, ma.values))
            # interpolating between large values of opposite sign cancels:
            # the achievable accuracy is relative to the source magnitude
            new.tol_scale = max(ma.tol_scale, float(np.max(np.abs(ma.values))) if len(ma.values) else 0.0)
        elif ma.kind == "E":
            new = SlotModel("E", tpriv, ma.vtype)
        elif ma.kind == "X":
            new = self._snapshot(res, ma)
        else:
            new = SlotModel("F", tpriv, ma.vtype, comps=[dict(c) for c in ma.comps])
            new.max_span = max(new.max_span, ma.max_span)
        self.derived_seen = True
        self._store(op["dst"], res, new)
        return ["with_times", ma.kind, len(tpriv)]

    def _op_mutate_buffer(self, op):
        obj, priv = self._need_buf(op["b"])
        if len(priv) == 0:
            raise Skip("empty buffer")
        i = op["idx"] % len(priv)
        how = op["how"]
        is_int = isinstance(priv[0], int)
        val = int(op["val"]) if is_int else op["val"]
        if how == "set":
            obj[i] = val
            priv[i] = val
        elif how == "add":
            obj[i] += val
            priv[i] += val
        else:
            f = 3 if is_int else 1.5
            for j in range(len(priv)):
                obj[j] = obj[j] * f
                priv[j] = priv[j] * f
        self.count("fault.mutate_buffer")
        if self.derived_seen or any(s is not None for s in self.slots):
            self.nontrivial = True
        return ["mutate_buffer", how]

    def _op_mutate_signal(self, op):
        a, ma = self._need_slot(op["a"])
        if ma.kind != "S" or len(ma.times) == 0:
            raise Skip("only sampled signals are mutated element-wise")
        i = op["idx"] % len(ma.times)
        if op["which"] == "values":
            a.values[i] = op["val"]
            ma.values = np.array(ma.values, dtype=float)
            ma.values[i] = np.asarray(op["val"]).astype(a.values.dtype)
        else:
            # keep the grid increasing: nudge by less than half a step
            ts = np.asarray(ma.times, dtype=float)
            if len(ts) > 1:
                step = min(abs(ts[min(i + 1, len(ts) - 1)] - ts[i]) or np.inf,
                           abs(ts[i] - ts[max(i - 1, 0)]) or np.inf)
                if not np.isfinite(step):
                    # both neighbours coincide with this sample (a re-gridding target with
                    # repeated times): there is no step to take a fraction of
                    raise Skip("no room to nudge this sample")
                delta = 0.25 * step * (1 if op["val"] >= 0 else -1)
            else:
                delta = op["val"]
            if np.asarray(a.times).dtype.kind in "iu" or np.asarray(ma.times).dtype.kind in "iu":
                raise Skip("integer grid")
            a.times[i] += delta
            ma.times = np.array(ma.times, dtype=float)
            ma.times[i] += delta
        self.count("fault.mutate_signal")
        self.nontrivial = True
        return ["mutate_signal", op["which"]]

    # ------------------------------------------------------------------
    # invariants after every step
    # ------------------------------------------------------------------
    def _check_all(self, op):
        P = self.pyrex
        arrays = []  # (owner, label, ndarray)
        for i, (sig, m) in enumerate(zip(self.slots, self.models)):
            if sig is None:
                continue
            st, tv = self.sut(lambda s=sig: (s.times, s.values, s.value_type),
                              where="read slot")
            times, values, vtype = tv
            if len(times) != len(values):
                raise Violation("C04:length-mismatch",
                                "slot %d has %d times and %d values after %s"
                                % (i, len(times), len(values), op["op"]))
            if len(times) != len(m.times) or not np.array_equal(
                    np.asarray(times, dtype=float), np.asarray(m.times, dtype=float)):
                raise Violation("C04:times-mismatch",
                                "slot %d times differ from the model after %s" % (i, op["op"]),
                                {"got": np.asarray(times, dtype=float)[:8],
                                 "want": np.asarray(m.times, dtype=float)[:8]})
            exp = np.asarray(m.expected_values(), dtype=float)
            got = np.asarray(values, dtype=float)
            if m.function_backed:
                tol = m.f_tolerance()
            else:
                tol = 1e-12 * max(np.max(np.abs(exp)) if len(exp) else 0.0, m.tol_scale) + m.abs_tol
            bad = ~(np.abs(got - exp) <= tol)
            if np.any(bad):
                k = int(np.argmax(bad))
                raise Violation("C04:values-mismatch",
                                "slot %d (%s) value[%d]=%r, model %r after %s"
                                % (i, m.kind, k, got[k], exp[k], op["op"]))
            if m.function_backed and isinstance(sig, P.FunctionSignal):
                # the definition itself (not only the cached values) must be untouched:
                # evaluate a fresh copy
                st, fresh = self.sut(lambda s=sig: np.asarray(s.copy().values, dtype=float), where="copy().values")
                bad = ~(np.abs(fresh - exp) <= tol) if len(fresh) == len(exp) else np.array([True])
                if np.any(bad):
                    k = int(np.argmax(bad))
                    raise Violation("C04:definition-changed",
                                    "slot %d (%s): a fresh evaluation of the signal gives value[%d]=%r, it was %r "
                                    "before %s touched another signal" % (i, m.kind, k, fresh[k] if len(fresh) > k
                                                                          else None, exp[k] if len(exp) > k else None,
                                                                          op["op"]))
            if not isinstance(vtype, self.pyrex.Signal.Type):
                raise Violation("C04:type-not-normalised",
                                "slot %d value_type is %r, not a member of Signal.Type" % (i, vtype))
            if int(vtype.value) != int(m.vtype):
                raise Violation("C04:type-mismatch",
                                "slot %d value_type %s, model %d after %s"
                                % (i, vtype, m.vtype, op["op"]))
            if isinstance(times, np.ndarray):
                arrays.append((("slot", i), "times", times))
            if isinstance(values, np.ndarray):
                arrays.append((("slot", i), "values", values))
        for j, (obj, priv) in enumerate(zip(self.bufs, self.buf_models)):
            if obj is None:
                continue
            cur = list(obj.tolist()) if isinstance(obj, np.ndarray) else list(obj)
            if len(cur) != len(priv) or any(
                    not (c == p or (c != c and p != p)) for c, p in zip(cur, priv)):
                raise Violation("C04:caller-buffer-modified",
                                "caller-owned buffer %d changed by pyrex after %s"
                                % (j, op["op"]), {"got": cur[:8], "want": priv[:8]})
            if isinstance(obj, np.ndarray):
                arrays.append((("buf", j), "data", obj))
        # no shared memory between distinct owners (same object in two slots
        # only arises from in-place operators returning self, stored once)
        for x in range(len(arrays)):
            for y in range(x + 1, len(arrays)):
                (oa, la, aa), (ob, lb, ab) = arrays[x], arrays[y]
                if oa == ob:
                    continue
                if oa[0] == "slot" and ob[0] == "slot" and \
                        self.slots[oa[1]] is self.slots[ob[1]]:
                    continue
                if aa.size and ab.size and np.shares_memory(aa, ab):
                    raise Violation("C04:shared-memory",
                                    "%s.%s shares memory with %s.%s after %s"
                                    % (oa, la, ob, lb, op["op"]))

    def finish(self):
        return [m.kind if m else None for m in self.models]

    # ------------------------------------------------------------------
    def simplify_op(self, op):
        if "data" in op and len(op["data"]) > 2:
            yield dict(op, data=op["data"][:max(2, len(op["data"]) // 2)])
        if "times" in op and len(op["times"]) > 2:
            yield dict(op, times=op["times"][:max(2, len(op["times"]) // 2)])
        if "values" in op and len(op["values"]) > 1:
            yield dict(op, values=op["values"][:len(op["values"]) // 2])
        if op.get("kind") in ("fft_noise", "full_noise", "gauss_noise", "function"):
            yield dict({k: v for k, v in op.items() if k not in ("fn", "band", "rms", "sigma")},
                       kind="signal", values=[1.0, 2.0])


MACHINES = [C04Signals]
