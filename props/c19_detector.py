"""C19 - detector composition visits every antenna once; triggers/clears as the union.

Detector subclasses (strings / groups, nesting depth 1-4, different
build_antennas / triggered signatures, spy-recording the keyword arguments
they receive) are generated per run; the PRNG orders compositions
(+, radd with lists and antennas, +=, sum), receptions, clears, trigger
queries and rejected compositions (antenna or sub-detector above the ice).
The model is the ordered list of antenna objects of every live detector.
"""
import inspect

import numpy as np

from sim.engine import Machine, Violation, Skip

N_SLOTS = 6
TIMES = np.linspace(0, 9e-9, 10)


def _classes(pyrex):
    """Detector / antenna classes used by the runs (created once per process)."""
    if hasattr(_classes, "cache"):
        return _classes.cache
    Detector = pyrex.Detector

    class ThrAntenna(pyrex.Antenna):
        def __init__(self, position, threshold=0.5, tag=None, noisy=False, noise_rms=None):
            super().__init__(position=position, noisy=noisy, freq_range=(1e8, 4e8),
                             noise_rms=noise_rms, unique_noise_waveforms=2)
            self.threshold = threshold
            self.tag = tag

        def trigger(self, signal):
            return bool(np.max(np.abs(signal.values)) > self.threshold)

    def string_positions(self, x, y, n, z0=-100.0, dz=10.0):
        for i in range(n):
            self.antenna_positions.append((x, y, z0 - i * dz))

    class StrPlain(Detector):
        set_positions = string_positions

    class StrA(Detector):
        set_positions = string_positions

        def build_antennas(self, antenna_class=ThrAntenna, threshold=0.5):
            self.__dict__.setdefault("build_log", []).append(
                {"antenna_class": antenna_class, "threshold": threshold})
            super().build_antennas(antenna_class, threshold=threshold)

        def triggered(self, require_mc_truth=False, min_hits=1):
            self.__dict__.setdefault("trig_log", []).append(
                {"require_mc_truth": require_mc_truth, "min_hits": min_hits})
            hits = sum(1 for a in self if (a.is_hit_mc_truth if require_mc_truth else a.is_hit))
            return hits >= min_hits

    class StrB(Detector):
        set_positions = string_positions

        def build_antennas(self, antenna_class=ThrAntenna, threshold=0.5, tag=None):
            self.__dict__.setdefault("build_log", []).append(
                {"antenna_class": antenna_class, "threshold": threshold, "tag": tag})
            super().build_antennas(antenna_class, threshold=threshold, tag=tag)

        def triggered(self, require_mc_truth=False, window=None):
            self.__dict__.setdefault("trig_log", []).append(
                {"require_mc_truth": require_mc_truth, "window": window})
            for a in self:
                if a.is_hit_mc_truth if require_mc_truth else a.is_hit:
                    return True
            return False

    # the same two strings behind a catch-all trigger signature that forwards to the explicit
    # one: both have the *same* signature (self, **kwargs) and accept different keywords
    class StrKA(StrA):
        def triggered(self, **kwargs):
            return super().triggered(**kwargs)

    class StrKB(StrB):
        def triggered(self, **kwargs):
            return super().triggered(**kwargs)

    class Group(Detector):
        def set_positions(self, children):
            for c in children:
                self.subsets.append(make_detector(c))

    def make_detector(spec):
        cls = {"StrPlain": StrPlain, "StrA": StrA, "StrB": StrB, "StrKA": StrKA, "StrKB": StrKB,
               "Group": Group}[spec["cls"]]
        if spec["cls"] == "Group":
            return Group(spec["children"])
        return cls(spec["x"], spec["y"], spec["n"], z0=spec.get("z0", -100.0))

    class Holder(Detector):
        """A detector made of ready-made sub-detectors."""
        def set_positions(self, subs):
            self.subsets.extend(subs)

    class LaxCombined(pyrex.detector.CombinedDetector, mirror_set_positions=False):
        """A combined detector that is allowed to hold antennas above the ice."""
        test_antenna_positions = False

    _classes.cache = dict(Holder=Holder, LaxCombined=LaxCombined, ThrAntenna=ThrAntenna, StrPlain=StrPlain, StrA=StrA, StrB=StrB,
                          StrKA=StrKA, StrKB=StrKB,
                          Group=Group, make=make_detector)
    return _classes.cache


ACCEPTS_BUILD = {"StrA": {"antenna_class", "threshold"},
                 "StrB": {"antenna_class", "threshold", "tag"}}
ACCEPTS_TRIG = {"StrA": {"require_mc_truth", "min_hits"},
                "StrB": {"require_mc_truth", "window"}}
for _k, _base in (("StrKA", "StrA"), ("StrKB", "StrB")):
    ACCEPTS_BUILD[_k] = ACCEPTS_BUILD[_base]
    ACCEPTS_TRIG[_k] = ACCEPTS_TRIG[_base]


def spec_positions(spec):
    """Expected antenna positions in construction order (DFS of the spec)."""
    if spec["cls"] == "Group":
        out = []
        for c in spec["children"]:
            out.extend(spec_positions(c))
        return out
    return [(spec["x"], spec["y"], spec.get("z0", -100.0) - i * 10.0) for i in range(spec["n"])]


def spec_leaves(spec):
    if spec["cls"] == "Group":
        out = []
        for c in spec["children"]:
            out.extend(spec_leaves(c))
        return out
    return [spec]


def leaf_detectors(det, out=None):
    """Leaf detector objects (those holding antennas) in construction order."""
    out = [] if out is None else out
    if hasattr(det, "subsets") and any(hasattr(s, "subsets") for s in det.subsets):
        for s in det.subsets:
            if hasattr(s, "subsets"):
                leaf_detectors(s, out)
    elif hasattr(det, "subsets"):
        out.append(det)
    return out


class Node:
    """Structural reference model of a detector: a leaf holds antennas (a built
    string, a list or a single antenna), an inner node holds child nodes.  Nodes
    are shared by reference exactly where pyrex nests the same object, so an
    in-place change of a nested detector shows in every detector that contains it."""

    def __init__(self, kind, children=None, ants=None, obj=None):
        self.kind = kind            # 'ants' | 'group' | 'combined'
        self.children = children if children is not None else []
        self.ants = ants if ants is not None else []
        self.obj = obj              # the real leaf detector (for rebuilds), if any

    def flat(self):
        if self.kind == "ants":
            return list(self.ants)
        out = []
        for c in self.children:
            out.extend(c.flat())
        return out

    def contains(self, other):
        if self is other:
            return True
        return any(c.contains(other) for c in self.children)

    def leaf_detectors(self, out=None):
        out = [] if out is None else out
        if self.kind == "ants":
            if self.obj is not None:
                out.append(self)
        else:
            for c in self.children:
                c.leaf_detectors(out)
        return out


class C19Detector(Machine):
    prop_id = "C19"
    name = "detector"
    level = "exploration"
    budget = {"quick": 12000, "thorough": 500000}
    max_steps = 30
    rule = ("seeded histories (<=30 ops) of build / + / radd(list, antenna) / += / sum / receive / "
            "clear / triggered(kwargs) / len-iter-index over generated Detector subclasses (nesting "
            "1-4) and rejected compositions (antenna or sub-detector above the ice); non-trivial = "
            "history contains a rejected composition or a combination of >=3 operands or a "
            "clear/trigger after receptions; distinct = history digest")
    components = {"real": ["pyrex.Detector", "CombinedDetector", "pyrex.Antenna (threshold subclass)",
                           "flatten"], "stub": ["spy sub-detectors recording received kwargs "
                                                "(real Detector subclasses)"]}
    assumptions = ["the reference model mirrors pyrex's nesting semantics (a combined left operand merges "
                   "its subsets, a plain one nests both operands by reference); a += whose right operand "
                   "contains the left one is not generated (it would nest a detector in itself)",
                   "keywords accepted by no sub-detector are not generated"]
    required_counters = ("fault.above_ice_add", "fault.above_ice_iadd", "fault.above_ice_build",
                         "op.assoc", "op.triggered", "op.clear", "probe.kwargs_dispatch_checked",
                         "probe.iadd_on_nested", "probe.leaf_rebuilt", "probe.late_build")

    def draw_config(self, rng):
        return {"n_steps": rng.pick([4, 8, 12, 20, 30]), "noisy": rng.chance(0.3),
                "noise_rms": rng.pick([1e-4, 1e-4, 1.0]), "depth": rng.pick([1, 2, 3, 4])}

    def setup(self, cfg):
        import pyrex
        self.pyrex = pyrex
        self.cfg = cfg
        self.K = _classes(pyrex)
        self.slots = [None] * N_SLOTS      # detector objects
        self.models = [None] * N_SLOTS     # Node trees (reference model of the structure)
        self.sig_count = {}                # id(antenna) -> number of signals received (model)
        self.ants = {}                     # id -> antenna (keep alive)

    # ------------------------------------------------------------------
    def _rand_spec(self, rng, depth):
        if depth <= 1 or rng.chance(0.3):
            return {"cls": rng.pick(["StrPlain", "StrA", "StrB", "StrKA", "StrKB", "StrKA", "StrKB"]),
                    "x": float(rng.randint(-50, 50)), "y": float(rng.randint(-50, 50)),
                    "n": rng.randint(1, 4)}
        return {"cls": "Group", "children": [self._rand_spec(rng, depth - 1)
                                             for _ in range(rng.randint(1, 3))]}

    def draw_op(self, rng):
        live = [i for i, d in enumerate(self.slots) if d is not None]
        kinds = [("make", 2.0)]
        if live:
            kinds += [("add", 1.5), ("radd", 0.8), ("iadd", 1.0), ("sum", 0.8), ("assoc", 0.7),
                      ("receive", 2.0), ("clear", 0.8), ("triggered", 1.5), ("access", 1.0),
                      ("bad_add", 0.6), ("bad_iadd", 0.6), ("rebuild_leaf", 0.6)]
        kinds.append(("bad_make", 0.4))
        kinds.append(("late_build", 0.6))
        k = rng.weighted(kinds)
        if k in ("make", "bad_make"):
            spec = self._rand_spec(rng, self.cfg["depth"])
            if k == "bad_make":
                leaves = spec_leaves(spec)
                rng.pick(leaves)["z0"] = 5.0
            kw = {}
            if rng.chance(0.6):
                kw["threshold"] = rng.pick([0.2, 0.5, 0.8])
            if rng.chance(0.4):
                kw["tag"] = rng.pick(["a", "b"])
            return {"op": "make", "slot": rng.randrange(N_SLOTS), "spec": spec, "kw": kw}
        if k == "late_build":
            leaves = [{"cls": rng.pick(["StrA", "StrB", "StrPlain", "StrKA", "StrKB", "StrKA", "StrKB"]), "x": float(10 * j),
                       "y": float(rng.randint(-20, 20)), "n": rng.randint(1, 3)} for j in range(rng.randint(3, 5))]
            kw = {}
            if rng.chance(0.7):
                kw["threshold"] = rng.pick([0.2, 0.8])
            if rng.chance(0.7):
                kw["tag"] = rng.pick(["a", "b"])
            return {"op": "late_build", "leaves": leaves, "n_iadd": rng.randint(0, 2), "nest": rng.chance(0.7),
                    "kw": kw}
        if k == "add":
            other = rng.pick(["slot", "slot", "antenna", "list"])
            op = {"op": "add", "a": rng.pick(live), "dst": rng.randrange(N_SLOTS), "other": other}
            if other == "slot":
                op["b"] = rng.pick(live)
            else:
                op["n"] = rng.randint(1, 3)
            return op
        if k == "radd":
            return {"op": "radd", "a": rng.pick(live), "dst": rng.randrange(N_SLOTS),
                    "other": rng.pick(["antenna", "list", "zero"]), "n": rng.randint(1, 3)}
        if k == "iadd":
            other = rng.pick(["slot", "antenna", "list"])
            op = {"op": "iadd", "a": rng.pick(live), "other": other, "n": rng.randint(1, 3)}
            if other == "slot":
                op["b"] = rng.pick(live)
            return op
        if k == "sum":
            return {"op": "sum", "items": [rng.pick(live) for _ in range(rng.randint(1, 4))],
                    "dst": rng.randrange(N_SLOTS)}
        if k == "assoc":
            return {"op": "assoc", "items": [rng.pick(live) for _ in range(3)]}
        if k == "receive":
            return {"op": "receive", "a": rng.pick(live), "k": rng.randrange(40),
                    "amp": rng.pick([0.1, 0.3, 0.6, 1.0, 2.0])}
        if k == "clear":
            return {"op": "clear", "a": rng.pick(live), "reset_noise": rng.chance(0.3)}
        if k == "triggered":
            kw = {}
            if rng.chance(0.4):
                kw["min_hits"] = rng.pick([1, 2])
            if rng.chance(0.3):
                kw["window"] = rng.pick([1, 2])
            return {"op": "triggered", "a": rng.pick(live), "mc": rng.chance(0.4), "kw": kw}
        if k == "access":
            return {"op": "access", "a": rng.pick(live), "i": rng.randrange(40)}
        if k == "rebuild_leaf":
            return {"op": "rebuild_leaf", "a": rng.pick(live), "k": rng.randrange(12),
                    "threshold": rng.pick([0.2, 0.5, 0.8])}
        if k == "bad_add":
            return {"op": "bad_add", "a": rng.pick(live), "side": rng.pick(["left", "right"]),
                    "other": rng.pick(["antenna", "list"]), "n": rng.randint(1, 3),
                    "bad": rng.randrange(3)}
        if k == "bad_iadd":
            return {"op": "bad_iadd", "a": rng.pick(live), "other": rng.pick(["antenna", "list", "combined"]),
                    "n": rng.randint(1, 3), "bad": rng.randrange(3)}
        raise AssertionError(k)

    # ------------------------------------------------------------------
    def _new_antenna(self, z=-50.0, x=0.0):
        noisy = self.cfg["noisy"]
        a = self.K["ThrAntenna"]((x, 0.0, z), threshold=0.5, noisy=noisy,
                                 noise_rms=self.cfg.get("noise_rms", 1e-4) if noisy else None)
        self._register(a)
        return a

    def _register(self, a):
        self.ants[id(a)] = a
        self.sig_count.setdefault(id(a), 0)

    def _need(self, i):
        if i is None or i >= N_SLOTS or self.slots[i] is None:
            raise Skip("empty slot")
        return self.slots[i], self.models[i]

    def _store(self, dst, det, model):
        self.slots[dst] = det
        self.models[dst] = model

    def _node_of(self, det):
        """Node tree mirroring a freshly built (non-combined) detector."""
        subs = list(det.subsets)
        if subs and all(hasattr(x, "subsets") for x in subs):
            return Node("group", children=[self._node_of(x) for x in subs])
        return Node("ants", ants=list(det), obj=det)

    def _is_combined(self, det):
        return isinstance(det, self.pyrex.detector.CombinedDetector)

    def _model_add(self, a, na, b, nb):
        """Node of a + b (pyrex: a combined left operand merges subsets, a plain one nests).
        a / b are the real operands or True/False for "is a combined detector"."""
        a_comb = a if isinstance(a, bool) else self._is_combined(a)
        b_comb = b if isinstance(b, bool) else self._is_combined(b)
        if a_comb:
            kids = list(na.children) + (list(nb.children) if b_comb else [nb])
        else:
            kids = [na, nb]
        return Node("combined", children=kids)

    def _model_radd(self, b, nb, a, na):
        """Node of b + a where b is a free antenna / list (handled by a.__radd__)."""
        if self._is_combined(a):
            return Node("combined", children=[nb] + list(na.children))
        return Node("combined", children=[nb, na])

    def _free_operand(self, op, above=None):
        """Free-standing antenna or list of antennas; above = index placed above the ice."""
        n = op.get("n", 1)
        if op["other"] == "combined":
            # a combined detector (allowed to hold them) bringing several subsets, one above the ice
            ants = [self._new_antenna(z=-60.0, x=1.0), self._new_antenna(z=5.0 if above is not None else -61.0, x=2.0),
                    self._new_antenna(z=-62.0, x=3.0)]
            extra = [self._new_antenna(z=-63.0, x=4.0), self._new_antenna(z=-64.0, x=5.0)]
            # one subset holds several antennas: antennas and subsets must not be confused
            det = self.K["LaxCombined"](extra, *ants)
            return det, Node("combined", children=[Node("ants", ants=list(extra))] +
                             [Node("ants", ants=[x]) for x in ants])
        if op["other"] == "antenna":
            a = self._new_antenna(z=5.0 if above is not None else -60.0)
            return a, Node("ants", ants=[a])
        ants = []
        for j in range(n):
            z = 5.0 if (above is not None and j == above % n) else -60.0 - j
            ants.append(self._new_antenna(z=z, x=float(j)))
        return ants, Node("ants", ants=list(ants))

    # ------------------------------------------------------------------
    def apply(self, op):
        name = op["op"]
        self.count("op." + name)
        out = getattr(self, "_op_" + name)(op)
        self._check_all(name)
        return out

    def _op_make(self, op):
        spec = op["spec"]
        kw = dict(op["kw"])
        make = self.K["make"]
        positions = spec_positions(spec)
        bad = any(p[2] > 0 for p in positions)
        st, det = self.sut(make, spec, expect=(ValueError,), where="Detector()")
        if bad:
            self.count("fault.above_ice_build")
            self.nontrivial = True
            if st != "raised":
                raise Violation("C19:above-ice-accepted",
                                "a detector with an antenna position above the ice was constructed")
            return ["make", "rejected"]
        if st == "raised":
            raise Violation("C19:valid-detector-rejected", "construction raised %r" % (det,))
        # keywords that no leaf names/accepts are a caller error, not generated
        acc = set()
        for ls in spec_leaves(spec):
            acc |= ACCEPTS_BUILD.get(ls["cls"], {"threshold", "tag"})
        kw = {k: v for k, v in kw.items() if k in acc}
        build_kw = dict(kw)
        build_kw["antenna_class"] = self.K["ThrAntenna"]
        st, _ = self.sut(lambda: det.build_antennas(**build_kw), where="build_antennas")
        ants = list(det)
        got_pos = [tuple(float(x) for x in a.position) for a in ants]
        if got_pos != [tuple(float(x) for x in p) for p in positions]:
            raise Violation("C19:construction-order",
                            "iteration after build visits positions %r, construction order is %r"
                            % (got_pos[:6], positions[:6]))
        # kwargs dispatch: every leaf got exactly the keys it accepts
        leaves = leaf_detectors(det)
        specs = spec_leaves(spec)
        if len(leaves) == len(specs):
            for leaf, ls in zip(leaves, specs):
                cls = ls["cls"]
                if cls == "StrPlain":
                    for a in leaf:
                        exp_thr = kw.get("threshold", 0.5)
                        if a.threshold != exp_thr or a.tag != kw.get("tag"):
                            raise Violation("C19:build-kwargs-lost",
                                            "antenna of a default string built with threshold=%r tag=%r, "
                                            "keywords given %r" % (a.threshold, a.tag, kw))
                    continue
                log = leaf.__dict__.get("build_log", [])
                if len(log) != 1:
                    raise Violation("C19:build-not-dispatched",
                                    "sub-detector %s had build_antennas called %d times" % (cls, len(log)))
                for key in ("threshold", "tag"):
                    if key in ACCEPTS_BUILD[cls]:
                        want = kw.get(key, 0.5 if key == "threshold" else None)
                        if log[0].get(key) != want:
                            raise Violation("C19:build-kwargs-lost",
                                            "sub-detector %s accepts %r but received %r (given %r)"
                                            % (cls, key, log[0].get(key), kw))
                self.count("probe.kwargs_dispatch_checked")
        for a in ants:
            if self.cfg["noisy"]:
                a.noisy = True
                a.noise_rms = self.cfg.get("noise_rms", 1e-4)
            self._register(a)
        self._store(op["slot"], det, self._node_of(det))
        return ["make", len(ants)]

    def _op_late_build(self, op):
        """Antennas are built only after the sub-detectors were combined (+, +=) and
        nested: every leaf must still receive exactly the keywords it accepts."""
        K = self.K
        specs = op["leaves"]
        leaves = [K["make"](s) for s in specs]
        kw = dict(op["kw"])
        acc = set()
        for s in specs:
            acc |= ACCEPTS_BUILD.get(s["cls"], {"threshold", "tag"})
        kw = {k: v for k, v in kw.items() if k in acc}

        def compose():
            c = leaves[0] + leaves[1]
            used = 2
            for leaf in leaves[2:2 + op["n_iadd"]]:
                c += leaf
                used += 1
            rest = leaves[used:]
            top = K["Holder"]([c] + rest) if (rest or op["nest"]) else c
            top.build_antennas(antenna_class=K["ThrAntenna"], **kw)
            return top
        st, top = self.sut(compose, where="late build_antennas")
        want_pos = []
        for s in specs:
            want_pos.extend(spec_positions(s))
        got_pos = [tuple(float(x) for x in a.position) for a in top]
        if got_pos != [tuple(float(x) for x in p) for p in want_pos]:
            raise Violation("C19:construction-order", "late-built detector visits %d antennas, %d expected "
                            "in construction order" % (len(got_pos), len(want_pos)))
        for leaf, s in zip(leaves, specs):
            cls = s["cls"]
            if cls == "StrPlain":
                for a in leaf:
                    if a.threshold != kw.get("threshold", 0.5) or a.tag != kw.get("tag"):
                        raise Violation("C19:build-kwargs-lost", "antenna of a default string built with "
                                        "threshold=%r tag=%r, keywords given %r" % (a.threshold, a.tag, kw))
                continue
            log = leaf.__dict__.get("build_log", [])
            if len(log) != 1:
                raise Violation("C19:build-not-dispatched", "sub-detector %s had build_antennas called %d "
                                "times" % (cls, len(log)))
            for key in ("threshold", "tag"):
                if key in ACCEPTS_BUILD[cls]:
                    want = kw.get(key, 0.5 if key == "threshold" else None)
                    if log[0].get(key) != want:
                        raise Violation("C19:build-kwargs-lost", "sub-detector %s accepts %r but received %r "
                                        "(given %r)" % (cls, key, log[0].get(key), kw))
            self.count("probe.kwargs_dispatch_checked")
        self.count("probe.late_build")
        if op["n_iadd"]:
            self.nontrivial = True
        return ["late_build", len(got_pos)]

    def _op_add(self, op):
        a, ma = self._need(op["a"])
        if op["other"] == "slot":
            b, mb = self._need(op["b"])
        else:
            b, mb = self._free_operand(op)
        st, res = self.sut(lambda: a + b, where="__add__")
        node = self._model_add(a, ma, b, mb)
        self._store(op["dst"], res, node)
        return ["add", len(ma.flat()), len(mb.flat())]

    def _op_radd(self, op):
        a, ma = self._need(op["a"])
        if op["other"] == "zero":
            st, res = self.sut(lambda: 0 + a, where="__radd__")
            if res is not a:
                raise Violation("C19:radd-zero", "0 + detector is not the detector")
            return ["radd", "zero"]
        b, mb = self._free_operand(op)
        st, res = self.sut(lambda: b + a, where="__radd__")
        self._store(op["dst"], res, self._model_radd(b, mb, a, ma))
        return ["radd", len(mb.flat()), len(ma.flat())]

    def _op_iadd(self, op):
        a, ma = self._need(op["a"])
        if op["other"] == "slot":
            b, mb = self._need(op["b"])
            if b is a:
                raise Skip("self +=")
            if mb.contains(ma):
                raise Skip("+= of a detector that contains the left operand (would nest it in itself)")
        else:
            b, mb = self._free_operand(op)

        def do():
            x = a
            x += b
            return x
        st, res = self.sut(do, where="__iadd__")
        if self._is_combined(a):
            if res is not a:
                raise Violation("C19:iadd-not-in-place", "+= on a combined detector returned another object")
            # in place: every detector that nests this one sees the new content
            ma.children.extend(list(mb.children) if self._is_combined(b) else [mb])
            nested_elsewhere = any(m is not None and m is not ma and m.contains(ma) for m in self.models)
            if nested_elsewhere:
                self.count("probe.iadd_on_nested")
                self.nontrivial = True
            self._store(op["a"], res, ma)
        else:
            # plain detectors fall back to __add__: a new combined detector nesting a
            self._store(op["a"], res, self._model_add(a, ma, b, mb))
        return ["iadd", len(self.models[op["a"]].flat())]

    def _op_sum(self, op):
        items = [self._need(i) for i in op["items"]]
        st, res = self.sut(sum, [d for d, _ in items], where="sum")
        if len(items) == 1:
            if res is not items[0][0]:
                raise Violation("C19:radd-zero", "sum([d]) is not d")
            return ["sum", 1]
        cur, node = items[0]
        for d, m in items[1:]:
            node = self._model_add(cur, node, d, m)
            cur = True
        if len(items) >= 3:
            self.nontrivial = True
        self._store(op["dst"], res, node)
        return ["sum", len(node.flat())]

    def _op_rebuild_leaf(self, op):
        """A nested leaf detector builds its antennas again on its own: every
        detector containing it must visit the new antennas."""
        a, ma = self._need(op["a"])
        leaves = ma.leaf_detectors()
        if not leaves:
            raise Skip("no leaf detector")
        leaf = leaves[op["k"] % len(leaves)]
        kw = {"antenna_class": self.K["ThrAntenna"]}
        if type(leaf.obj).__name__ != "StrPlain" or True:
            kw["threshold"] = op["threshold"]
        st, _ = self.sut(lambda: leaf.obj.build_antennas(**kw), where="leaf.build_antennas")
        leaf.ants = list(leaf.obj)
        for x in leaf.ants:
            if self.cfg["noisy"]:
                x.noisy = True
                x.noise_rms = self.cfg.get("noise_rms", 1e-4)
            self._register(x)
        self.count("probe.leaf_rebuilt")
        self.nontrivial = True
        return ["rebuild_leaf", len(leaf.ants)]

    def _op_assoc(self, op):
        (a, ma), (b, mb), (c, mc) = [self._need(i) for i in op["items"]]
        want = [id(x) for x in ma.flat() + mb.flat() + mc.flat()]

        def variants():
            x = a + b
            x += c
            return [(a + b) + c, a + (b + c), sum([a, b, c]), x]
        st, res = self.sut(variants, where="associativity")
        names = ["(a+b)+c", "a+(b+c)", "sum([a,b,c])", "x=a+b; x+=c"]
        for nm, d in zip(names, res):
            got = [id(x) for x in d]
            if got != want or len(d) != len(want):
                raise Violation("C19:not-associative",
                                "%s visits %d antennas, expected the concatenation of %d"
                                % (nm, len(got), len(want)))
        self.nontrivial = True
        return ["assoc", len(want)]

    def _signal(self, amp):
        P = self.pyrex
        vals = np.zeros(len(TIMES))
        vals[4] = amp
        return P.Signal(TIMES, vals, value_type=P.Signal.Type.voltage)

    def _op_receive(self, op):
        a, ma = self._need(op["a"])
        ma = ma.flat()
        if not ma:
            raise Skip("no antennas")
        ant = ma[op["k"] % len(ma)]
        st, _ = self.sut(ant.receive, self._signal(op["amp"]), where="receive")
        self.sig_count[id(ant)] += 1
        return ["receive", op["k"] % len(ma)]

    def _op_clear(self, op):
        a, ma = self._need(op["a"])
        st, _ = self.sut(lambda: a.clear(reset_noise=op["reset_noise"]), where="clear")
        ma = ma.flat()
        had = sum(self.sig_count[id(x)] for x in ma)
        for x in ma:
            self.sig_count[id(x)] = 0
        if had:
            self.nontrivial = True
        return ["clear", had]

    def _op_triggered(self, op):
        a, ma = self._need(op["a"])
        ma = ma.flat()
        mc = op["mc"]
        kw = dict(op["kw"])
        is_combined = isinstance(a, self.pyrex.detector.CombinedDetector)
        custom_top = type(a).__name__ in ACCEPTS_TRIG
        if not is_combined:
            if custom_top:
                kw = {k: v for k, v in kw.items() if k in ACCEPTS_TRIG[type(a).__name__]}
            else:
                kw = {}
        else:
            # only keywords that at least one reachable sub-detector names in
            # its own trigger signature (catch-all **kwargs do not count)
            # (the default Detector.triggered of a nested plain detector never
            # dispatches to its own sub-detectors, so only spies reachable
            # through CombinedDetector nesting count)
            acc = set()
            for s in self._combined_spies(a):
                acc |= ACCEPTS_TRIG[type(s).__name__]
            kw = {k: v for k, v in kw.items() if k in acc}
        for leaf in self._all_spies(a):
            leaf.__dict__["trig_log"] = []
        st, got = self.sut(lambda: a.triggered(require_mc_truth=mc, **kw), where="triggered")

        def hit(x):
            return bool(x.is_hit_mc_truth if mc else x.is_hit)
        if is_combined:
            want = self._expected_trigger(a, mc, kw, hit, top=True)
        elif custom_top:
            want = None   # own trigger of a spy string: nothing to compare
        else:
            want = any(hit(x) for x in ma)
        if want is not None and bool(got) != bool(want):
            raise Violation("C19:trigger-not-union",
                            "triggered(require_mc_truth=%s, %r) returned %s, union over the "
                            "antennas/sub-detectors gives %s" % (mc, kw, got, want))
        if any(self.sig_count[id(x)] for x in ma):
            self.nontrivial = True
        return ["triggered", bool(got)]

    def _expected_trigger(self, det, mc, kw, hit, top=False):
        """Union semantics: spies decide by their own trigger (with exactly the
        keywords they accept), plain detectors by 'any antenna hit', combined
        detectors by the union over their subsets."""
        nm = type(det).__name__
        if nm in ACCEPTS_TRIG:
            sub_kw = {k: v for k, v in kw.items() if k in ACCEPTS_TRIG[nm]}
            log = list(det.__dict__.get("trig_log", []))
            r = det.triggered(require_mc_truth=mc, **sub_kw)
            det.__dict__["trig_log"] = log
            for rec in log:
                for k2, v2 in sub_kw.items():
                    if rec.get(k2) != v2:
                        raise Violation("C19:trigger-kwargs-lost",
                                        "sub-detector %s accepts %r=%r but received %r"
                                        % (nm, k2, v2, rec.get(k2)))
                if rec.get("require_mc_truth") != mc:
                    raise Violation("C19:trigger-kwargs-lost",
                                    "require_mc_truth not passed to sub-detector %s" % nm)
                self.count("probe.kwargs_dispatch_checked")
            return bool(r)
        if isinstance(det, self.pyrex.detector.CombinedDetector):
            out = False
            for s in det.subsets:
                out = self._expected_trigger(s, mc, kw, hit) or out
            return out
        if hasattr(det, "subsets") or isinstance(det, (list, tuple)):
            return any(hit(x) for x in det)
        return hit(det)

    def _combined_spies(self, det, out=None):
        out = [] if out is None else out
        for s in getattr(det, "subsets", []):
            if type(s).__name__ in ACCEPTS_TRIG:
                out.append(s)
            elif isinstance(s, self.pyrex.detector.CombinedDetector):
                self._combined_spies(s, out)
        return out

    def _all_spies(self, det, out=None):
        out = [] if out is None else out
        for s in getattr(det, "subsets", []):
            if hasattr(s, "subsets"):
                if type(s).__name__ in ACCEPTS_TRIG:
                    out.append(s)
                self._all_spies(s, out)
        return out

    def _op_access(self, op):
        a, ma = self._need(op["a"])
        ma = ma.flat()
        n = len(ma)
        st, ln = self.sut(len, a, where="len")
        if ln != n:
            raise Violation("C19:len", "len(detector)=%d, model %d" % (ln, n))
        if n:
            i = op["i"] % n
            st, x = self.sut(lambda: (a[i], a[-(i + 1)]), where="getitem")
            if x[0] is not ma[i] or x[1] is not ma[-(i + 1)]:
                raise Violation("C19:getitem", "detector[%d] / detector[-%d] is not the model antenna"
                                % (i, i + 1))
        return ["access", n]

    def _bad_composition(self, op, inplace):
        a, ma = self._need(op["a"])
        if op["other"] == "combined" and not (inplace and isinstance(a, self.pyrex.detector.CombinedDetector)):
            # only an in-place merge into a combined detector re-tests the merged subsets
            # (a lax detector nested as a whole keeps its own opt-out)
            op = dict(op, other="list")
        b, mb = self._free_operand(op, above=op["bad"])
        before = [id(x) for x in a]

        def do():
            if inplace:
                x = a
                x += b
                return x
            if op.get("side") == "left":
                return b + a
            return a + b
        st, res = self.sut(do, expect=(ValueError,), where="bad composition")
        self.count("fault.above_ice_iadd" if inplace else "fault.above_ice_add")
        self.nontrivial = True
        if st != "raised":
            raise Violation("C19:above-ice-accepted",
                            "combining with an antenna above the ice surface did not raise")
        after = [id(x) for x in a]
        if after != before:
            raise Violation("C19:rejected-composition-mutated",
                            "a rejected %s left the left operand with %d antennas (had %d)"
                            % ("+=" if inplace else "+", len(after), len(before)))
        return ["bad", "rejected"]

    def _op_bad_add(self, op):
        return self._bad_composition(op, False)

    def _op_bad_iadd(self, op):
        return self._bad_composition(op, True)

    # ------------------------------------------------------------------
    def _check_all(self, opname):
        for i, (d, m) in enumerate(zip(self.slots, self.models)):
            if d is None:
                continue
            st, got = self.sut(list, d, where="iter")
            ids = [id(x) for x in got]
            m = m.flat()
            if len(set(ids)) != len(ids) and len(set(id(x) for x in m)) == len(m):
                raise Violation("C19:duplicate-visit", "slot %d visits an antenna twice after %s"
                                % (i, opname))
            if ids != [id(x) for x in m]:
                raise Violation("C19:content-mismatch",
                                "slot %d iterates %d antennas, model has %d (after %s)"
                                % (i, len(ids), len(m), opname))
            st, ln = self.sut(len, d, where="len")
            if ln != len(m):
                raise Violation("C19:len", "len(slot %d)=%d but iteration visits %d antennas (after %s)"
                                % (i, ln, len(m), opname))
            if m:
                st, ends = self.sut(lambda: (d[0], d[-1], d[len(m) // 2]), where="getitem")
                if ends[0] is not m[0] or ends[1] is not m[-1] or ends[2] is not m[len(m) // 2]:
                    raise Violation("C19:getitem", "indexing slot %d disagrees with iteration (after %s)"
                                    % (i, opname))
        for aid, ant in self.ants.items():
            n = len(ant.signals)
            if n != self.sig_count[aid]:
                raise Violation("C19:antenna-state",
                                "an antenna holds %d signals, model %d (after %s): clear/receive "
                                "reached the wrong antennas" % (n, self.sig_count[aid], opname))

    def finish(self):
        return [len(m.flat()) if m is not None else None for m in self.models]


MACHINES = [C19Detector]
