"""C13 - generators throw uniform, isotropic, correctly weighted neutrinos and
count their throws.

Decided by simulation: everything that depends on the random stream (seeded,
with injected extreme / threshold-adjacent draws) and on generator state
(count, list cursor, shadow retry).  The weight formula and the exit-point
geometry are evaluated as per-event invariants inside those runs.
"""
import math

import numpy as np

from sim.engine import Machine, Violation, Skip
from sim import seams

NU_IDS = {12, -12, 14, -14, 16, -16}


def ks_uniform(samples):
    """Kolmogorov-Smirnov distance of samples in [0,1] from the uniform law."""
    x = np.sort(np.asarray(samples, dtype=float))
    n = len(x)
    i = np.arange(1, n + 1)
    return float(max(np.max(i / n - x), np.max(x - (i - 1) / n)))


def ks_critical(n, alpha=1e-9):
    return math.sqrt(-math.log(alpha / 2) / (2 * n))


Z_1E9 = 6.11   # two-sided 1e-9 normal quantile


class StubEarth:
    """Closed-form slant depth: depends on the direction only."""

    def __init__(self, a, b):
        self.a, self.b = a, b

    def slant_depth(self, endpoint, direction, step=500):
        d = np.asarray(direction, dtype=float)
        return self.a * (1.0 + self.b * d[2] / np.linalg.norm(d))


def box_exit(v, d, lo, hi):
    t_in, t_out = -np.inf, np.inf
    for i in range(3):
        if d[i] == 0:
            continue
        t1, t2 = (lo[i] - v[i]) / d[i], (hi[i] - v[i]) / d[i]
        t_in = max(t_in, min(t1, t2))
        t_out = min(t_out, max(t1, t2))
    return v + t_in * d, v + t_out * d


def cyl_exit(v, d, R, dz):
    t_in, t_out = -np.inf, np.inf
    a = d[0] ** 2 + d[1] ** 2
    if a > 0:
        b = v[0] * d[0] + v[1] * d[1]
        c = v[0] ** 2 + v[1] ** 2 - R ** 2
        disc = max(b * b - a * c, 0.0)
        t_in = max(t_in, (-b - math.sqrt(disc)) / a)
        t_out = min(t_out, (-b + math.sqrt(disc)) / a)
    if d[2] != 0:
        t1, t2 = (-dz - v[2]) / d[2], (0.0 - v[2]) / d[2]
        t_in = max(t_in, min(t1, t2))
        t_out = min(t_out, max(t1, t2))
    return v + t_in * d, v + t_out * d


class C13Events(Machine):
    prop_id = "C13"
    name = "gen_events"
    level = "exploration"
    budget = {"quick": 3000, "thorough": 150000}
    max_steps = 8
    rule = ("seeded runs of cylindrical / rectangular / list generators (dimensions, shadow on/off, both "
            "interaction models, flavour ratios, real PREM or closed-form stub earth, energies 1e3..1e12 from a "
            "supplied callable): batches of 20-150 create_event() calls, count reads / assignments, an energy "
            "source that raises once, list replay past the end with loop on/off; optional buggify stream "
            "(draws 0, 1-2^-53, flavour-threshold-adjacent); non-trivial = a shadow rejection, injected draw, "
            "fault or list wrap-around occurred; distinct = history digest")
    components = {"real": ["CylindricalGenerator", "RectangularGenerator", "ListGenerator", "Particle + "
                           "CTW/GQRS interactions", "PREM earth model (half of the runs)",
                           "numpy.random via PRNG seam"],
                  "stub": ["closed-form slant-depth earth model (half of the runs)",
                           "get_vertex / get_weights / energy spies (record and delegate)"]}
    assumptions = ["1e-9 relative slack on geometric bounds and weights",
                   "buggify violations are reported only when the minimised trace needs <=3 injected draws"]
    required_counters = ("probe.shadow_rejections", "fault.energy_raised", "probe.list_wrap",
                         "fault.list_exhausted", "draws.injected", "probe.events_checked", "probe.resized",
                         "draws.random_sample", "draws.rand")

    def draw_config(self, rng):
        kind = rng.pick(["cylindrical", "cylindrical", "rectangular", "rectangular", "list"])
        cfg = {"n_steps": rng.pick([2, 4, 6, 8]), "kind": kind, "shadow": rng.chance(0.5),
               "model": rng.pick(["CTW", "GQRS"]),
               "ratio": rng.pick([[1, 1, 1], [1, 2, 0], [0, 0, 1], [3, 1, 1], [0, 1, 1], [1, 0, 2], [0, 1, 0]]),
               "source": rng.pick(["cosmogenic", "astrophysical"]),
               "earth": rng.pick(["prem", "stub", "stub"]), "stub": [rng.pick([1e6, 1e7, 1e8]), rng.pick([0.0, 0.9])],
               "emin": rng.pick([3, 6, 9]), "emax": 12, "buggify": rng.chance(0.35),
               "const_energy": rng.pick([None, None, 1e5, 1e9]),
               "dr": rng.pick([100.0, 1000.0, 5000.0]), "dz": rng.pick([50.0, 1000.0, 2800.0]),
               "dx": rng.pick([200.0, 3000.0]), "dy": rng.pick([200.0, 10000.0]),
               "list_n": rng.randint(1, 5), "loop": rng.chance(0.5)}
        return cfg

    def setup(self, cfg):
        import pyrex
        P = self.pyrex = pyrex
        self.cfg = cfg = dict(cfg)     # private copy: the resize op changes the dimensions
        self.erng = np.random.RandomState(cfg["rs"] % (2 ** 32))
        self.energy_fault = False
        self.energies = []
        machine = self

        def energy():
            if machine.energy_fault:
                machine.energy_fault = False
                raise seams.InjectedFault("energy source failed")
            if cfg.get("const_energy"):
                e = float(cfg["const_energy"])
            else:
                e = float(10 ** machine.erng.uniform(cfg["emin"], cfg["emax"]))
            machine.energies.append(e)
            return e
        model = P.particle.CTWInteraction if cfg["model"] == "CTW" else P.particle.GQRSInteraction
        earth = P.earth_model.earth if cfg["earth"] == "prem" else StubEarth(*cfg["stub"])
        self.earth = earth
        kw = dict(energy=energy, shadow=cfg["shadow"], flavor_ratio=tuple(cfg["ratio"]),
                  source=cfg["source"], interaction_model=model, earth_model=earth)
        if cfg["kind"] == "cylindrical":
            self.gen = P.CylindricalGenerator(dr=cfg["dr"], dz=cfg["dz"], **kw)
        elif cfg["kind"] == "rectangular":
            self.gen = P.RectangularGenerator(dx=cfg["dx"], dy=cfg["dy"], dz=cfg["dz"], **kw)
        else:
            self.list_events = [P.Event(P.Particle("nu_e", (i, 0, -100), (0, 0, 1), 1e9,
                                                   interaction_type="cc"))
                                for i in range(cfg["list_n"])]
            self.gen = P.ListGenerator(list(self.list_events), loop=cfg["loop"])
            self.list_index = 0
            self.model_count = 0
            return
        # spies on public methods (record and delegate)
        self.throws = []
        orig_vertex = self.gen.get_vertex
        orig_weights = self.gen.get_weights

        def spy_vertex():
            v = orig_vertex()
            machine.throws.append({"vertex": np.array(v, dtype=float)})
            return v

        def spy_weights(particle):
            w = orig_weights(particle)
            machine.throws[-1]["weights"] = (float(w[0]), float(w[1]))
            machine.throws[-1]["particle"] = particle
            return w
        self.gen.get_vertex = spy_vertex
        self.gen.get_weights = spy_weights
        self.model_count = 0

    # ------------------------------------------------------------------
    def _inject(self, rng, n_events):
        if not self.cfg["buggify"] or not rng.chance(0.6):
            return None
        out = []
        ratio = np.array(self.cfg["ratio"], dtype=float) / sum(self.cfg["ratio"])
        thr = [ratio[0], ratio[0] + ratio[1], 0.78, 0.61, 0.5]
        for _ in range(rng.randint(1, 2)):
            k = rng.randrange(0, 12 * max(1, min(n_events, 4)))
            val = rng.pick([0.0, seams.ONE_MINUS_EPS, 0.5, 0.25, 0.75] +
                           [float(np.nextafter(t, 0)) for t in thr] + [float(t) for t in thr])
            out.append(["u", k, min(max(val, 0.0), seams.ONE_MINUS_EPS)])
        return out

    def draw_op(self, rng):
        if self.cfg["kind"] == "list":
            return rng.weighted([({"op": "list_throw", "n": rng.randint(1, 7)}, 3.0),
                                 ({"op": "count_assign", "value": rng.randint(0, 50)}, 1.0),
                                 ({"op": "count_read"}, 1.0)])
        k = rng.weighted([("throw", 4.0), ("count_read", 1.0), ("count_assign", 0.7), ("energy_fault", 0.6),
                          ("resize", 0.5), ("switch_model", 0.5)])
        if k == "switch_model":
            return {"op": "switch_model", "model": rng.pick(["CTW", "GQRS"])}
        if k == "resize":
            return {"op": "resize", "dr": rng.pick([100.0, 1000.0, 5000.0]), "dz": rng.pick([50.0, 1000.0, 2800.0]),
                    "dx": rng.pick([200.0, 3000.0]), "dy": rng.pick([200.0, 10000.0])}
        if k == "throw":
            n = rng.pick([20, 50, 150])
            op = {"op": "throw", "n": n}
            inj = self._inject(rng, n)
            if inj:
                op["inject"] = inj
                op["n"] = min(n, 4)
            return op
        if k == "count_assign":
            return {"op": "count_assign", "value": rng.randint(0, 1000)}
        return {"op": k}

    # ------------------------------------------------------------------
    def apply(self, op):
        name = op["op"]
        self.count("op." + name)
        return getattr(self, "_op_" + name)(op)

    def _op_count_read(self, op):
        if self.gen.count != self.model_count:
            raise Violation("C13:count", "count=%r, %r throws were made" % (self.gen.count, self.model_count))
        return ["count", self.model_count]

    def _op_count_assign(self, op):
        self.gen.count = op["value"]
        self.model_count = op["value"]
        return self._op_count_read(op)

    def _op_list_throw(self, op):
        n_list = len(self.list_events)
        out = []
        for _ in range(op["n"]):
            exhausted = (not self.cfg["loop"]) and self.list_index >= n_list
            st, ev = self.sut(self.gen.create_event, expect=(StopIteration,), where="ListGenerator.create_event")
            if exhausted:
                self.count("fault.list_exhausted")
                self.nontrivial = True
                if st != "raised":
                    raise Violation("C13:list-not-stopping", "list generator without loop yielded an event "
                                    "past its end")
                continue
            if st == "raised":
                raise Violation("C13:list-stopped-early", "StopIteration after %d of %d events"
                                % (self.list_index, n_list))
            want = self.list_events[self.list_index % n_list]
            if ev is not want:
                raise Violation("C13:list-order", "throw %d returned the wrong event" % self.list_index)
            if self.list_index >= n_list:
                self.count("probe.list_wrap")
                self.nontrivial = True
            self.list_index += 1
            self.model_count += 1
            out.append(self.list_index)
        self._op_count_read(op)
        return ["list_throw", out]

    def _op_energy_fault(self, op):
        if self.cfg["kind"] == "list":
            raise Skip("no energy source")
        self.energy_fault = True
        before = self.gen.count
        n_throws = len(self.throws)
        st, res = self.sut(self.gen.create_event, expect=(seams.InjectedFault,), where="create_event")
        self.count("fault.energy_raised")
        self.nontrivial = True
        if st != "raised":
            raise Violation("C13:energy-fault-swallowed", "the failing energy source was not propagated")
        made = len(self.throws) - n_throws
        delta = self.gen.count - before
        if delta != made or delta > 1:
            raise Violation("C13:count-after-abort", "aborted throw: count advanced by %d, %d vertices were "
                            "drawn" % (delta, made))
        self.model_count += delta
        # the next throw works
        return ["energy_fault", self._throw_and_check(1, None)]

    def _op_switch_model(self, op):
        """The public interaction_model attribute is reassigned on the live generator."""
        if self.cfg["kind"] == "list":
            raise Skip("no interaction model")
        P = self.pyrex
        self.gen.interaction_model = (P.particle.CTWInteraction if op["model"] == "CTW"
                                      else P.particle.GQRSInteraction)
        self.count("probe.model_switched")
        return ["switch_model", self._throw_and_check(5, None)]

    def _op_resize(self, op):
        """The public dimension attributes are reassigned on the live generator."""
        if self.cfg["kind"] == "list":
            raise Skip("no dimensions")
        names = ("dr", "dz") if self.cfg["kind"] == "cylindrical" else ("dx", "dy", "dz")
        for nm in names:
            setattr(self.gen, nm, op[nm])
            self.cfg[nm] = op[nm]
        self.count("probe.resized")
        self.nontrivial = True
        return ["resize", self._throw_and_check(5, None)]

    def _op_throw(self, op):
        return ["throw", self._throw_and_check(op["n"], op.get("inject"))]

    # ------------------------------------------------------------------
    def _throw_and_check(self, n, inject):
        cfg = self.cfg
        gen = self.gen
        accepted = 0
        rejected_ws = []
        for _ in range(n):
            before = gen.count
            t0 = len(self.throws)
            e0 = len(self.energies)
            st, ev = self.sut(gen.create_event, where="create_event")
            made = self.throws[t0:]
            if gen.count - before != len(made):
                raise Violation("C13:count", "one create_event(): count advanced by %d but %d vertices were "
                                "thrown (rejected ones included)" % (gen.count - before, len(made)))
            self.model_count += len(made)
            if len(made) > 1:
                self.count("probe.shadow_rejections", len(made) - 1)
                self.nontrivial = True
                if not cfg["shadow"]:
                    raise Violation("C13:retry-without-shadow", "events were re-thrown with shadow off")
            if len(self.energies) - e0 != len(made):
                raise Violation("C13:energy-draws", "one create_event(): %d throws but the energy source was "
                                "asked %d times" % (len(made), len(self.energies) - e0))
            roots = list(ev.roots)
            if len(roots) != 1:
                raise Violation("C13:event-shape", "generated event has %d roots" % len(roots))
            p = roots[0]
            last = made[-1]
            if last.get("particle") is not p:
                raise Violation("C13:event-particle", "returned particle is not the last thrown one")
            for m in made:
                rejected_ws.append(m["weights"][0])
            accepted += 1
            self._check_event(p, last, self.energies[e0:])
        if cfg["shadow"] and not inject and len(rejected_ws) >= 20:
            ws = np.array(rejected_ws)
            mean = float(ws.sum())
            sd = math.sqrt(float((ws * (1 - ws)).sum()))
            if abs(accepted - mean) > Z_1E9 * sd + 1:
                raise Violation("C13:shadow-rate", "%d of %d throws accepted, survival weights predict "
                                "%.1f +- %.1f" % (accepted, len(ws), mean, sd))
        if gen.count != self.model_count:
            raise Violation("C13:count", "count=%r, model %r" % (gen.count, self.model_count))
        if inject:
            self.nontrivial = True
        return accepted

    def _check_event(self, p, throw, energies):
        cfg = self.cfg
        self.count("probe.events_checked")
        v = np.asarray(p.vertex, dtype=float)
        d = np.asarray(p.direction, dtype=float)
        if not np.array_equal(v, throw["vertex"]):
            raise Violation("C13:vertex", "particle vertex differs from the thrown vertex")
        if p.id.value not in NU_IDS:
            raise Violation("C13:particle-type", "particle id %r is not a neutrino type" % (p.id,))
        if cfg["ratio"][{12: 0, 14: 1, 16: 2}[abs(p.id.value)]] == 0:
            raise Violation("C13:flavour-with-zero-ratio", "a %s was thrown although the configured flavour "
                            "ratio %r gives that flavour probability zero" % (p.id.name, cfg["ratio"]))
        if abs(np.linalg.norm(d) - 1) > 1e-12:
            raise Violation("C13:direction-norm", "|direction| = %r" % float(np.linalg.norm(d)))
        if not energies or p.energy != energies[-1]:
            raise Violation("C13:energy", "particle energy %r is not the value the source returned" % p.energy)
        dzv = cfg["dz"]
        if cfg["kind"] == "cylindrical":
            R = cfg["dr"]
            scale = max(R, dzv)
            if math.hypot(v[0], v[1]) > R * (1 + 1e-12) or v[2] > 0 or v[2] < -dzv * (1 + 1e-12):
                raise Violation("C13:vertex-outside", "vertex %r outside the cylinder r<=%r, -%r<=z<=0" % (v, R, dzv))
            cands = [cyl_exit(v, d, R, dzv)]
            diag = math.hypot(2 * R, dzv)
            par = [False, False, abs(d[2]) * diag <= 1e-6]
        else:
            lo = np.array([-cfg["dx"] / 2, -cfg["dy"] / 2, -dzv])
            hi = np.array([cfg["dx"] / 2, cfg["dy"] / 2, 0.0])
            scale = float(np.max(hi - lo))
            if np.any(v < lo - 1e-9) or np.any(v > hi + 1e-9):
                raise Violation("C13:vertex-outside", "vertex %r outside the box" % (v,))
            cands = [box_exit(v, d, lo, hi)]
            diag = float(np.linalg.norm(hi - lo))
            par = [abs(d[i]) * diag <= 1e-6 for i in range(3)]
        if any(par):
            # the line runs parallel to a face to within rounding (a direction component of 1e-17
            # from an injected extreme draw): whether that face cuts the chord is decided 1e-13 m
            # away from the boundary, so the intersection without that face is as good an answer
            d_par = np.array([0.0 if par[i] else d[i] for i in range(3)])
            self.count("probe.grazing_line")
            cands.append(cyl_exit(v, d_par, R, dzv) if cfg["kind"] == "cylindrical" else box_exit(v, d_par, lo, hi))
        st, pts = self.sut(self.gen.get_exit_points, p, where="get_exit_points")
        got_in, got_out = np.asarray(pts[0], dtype=float), np.asarray(pts[1], dtype=float)
        tol = 1e-6 + 1e-9 * scale
        if cfg["kind"] == "cylindrical":
            # conditioning of a (nearly) tangent line at the wall: sqrt(rounding of r^2 - R^2)
            tol += 1e-7 * R
        want_in = want_out = None
        for c_in, c_out in cands:
            if np.max(np.abs(got_in - c_in)) <= tol and np.max(np.abs(got_out - c_out)) <= tol:
                want_in, want_out = c_in, c_out
                break
        if want_in is None:
            want_in, want_out = cands[0]
            raise Violation("C13:exit-points", "get_exit_points gives %r -> %r, line/volume intersection is "
                            "%r -> %r (vertex %r, direction %r)" % (got_in, got_out, want_in, want_out, v, d))
        # weights
        sw, iw = throw["weights"]
        L_tot = float(p.interaction.total_interaction_length)
        slant = float(self.earth.slant_depth(v, -d))
        want_sw = math.exp(-slant / L_tot)
        if abs(sw - want_sw) > 1e-9 * max(want_sw, 1e-300) + 1e-300:
            raise Violation("C13:survival-weight", "survival weight %r, exp(-slant/L)=%r" % (sw, want_sw))
        L_ice = L_tot / 0.92 / 100
        chord = float(np.linalg.norm(want_out - want_in))
        travel = float(np.linalg.norm(v - want_in))
        want_iw = chord / L_ice * math.exp(-travel / L_ice)
        # (the chord and the distance travelled are only known to the tolerance of the points)
        if abs(iw - want_iw) > 1e-7 * want_iw + 3 * tol / L_ice + 1e-300:
            raise Violation("C13:interaction-weight", "interaction weight %r, (chord/L) exp(-travel/L)=%r"
                            % (iw, want_iw))
        if cfg["shadow"]:
            if p.survival_weight != 1:
                raise Violation("C13:shadow-weight", "shadowing generator returned survival weight %r"
                                % p.survival_weight)
        elif p.survival_weight != sw:
            raise Violation("C13:weights-assigned", "particle survival weight %r, computed %r"
                            % (p.survival_weight, sw))
        if p.interaction_weight != iw:
            raise Violation("C13:weights-assigned", "particle interaction weight %r, computed %r"
                            % (p.interaction_weight, iw))

    def finish(self):
        if self.gen.count != self.model_count:
            raise Violation("C13:count", "final count=%r, model %r" % (self.gen.count, self.model_count))
        return ["count", self.model_count]

    # known-finding predicates (degenerate geometry reached through injected draws)
    finding_predicates = {}


class C13Distributions(Machine):
    """Large-sample laws of vertices, directions, flavours on seeded streams."""
    prop_id = "C13"
    name = "gen_distributions"
    level = "exploration"
    budget = {"quick": 64, "thorough": 3000}
    max_steps = 1
    rule = ("each run draws 20000 vertices / directions / particle types from one generator configuration on "
            "a seeded stream: r^2/R^2, z, azimuth, cos(theta), direction azimuth uniform by Kolmogorov-"
            "Smirnov, flavour and nu/nubar counts binomial, all two-sided at 1e-9; non-trivial = always")
    components = {"real": ["CylindricalGenerator/RectangularGenerator get_vertex / get_direction / "
                           "get_particle_type", "numpy.random via PRNG seam"], "stub": []}
    assumptions = ["fixed 1e-9 level on fixed seeds: gross distortions (missing sqrt, swapped ratios), not "
                   "per-mille biases"]
    required_counters = ()
    N = 20000

    def draw_config(self, rng):
        return {"n_steps": 1, "kind": rng.pick(["cylindrical", "rectangular"]),
                "dr": rng.pick([100.0, 5000.0]), "dz": rng.pick([50.0, 2800.0]),
                "dx": rng.pick([200.0, 3000.0]), "dy": rng.pick([200.0, 10000.0]),
                "ratio": rng.pick([[1, 1, 1], [1, 2, 0], [3, 1, 1], [0, 1, 1], [1, 0, 2], [0, 0, 1]]),
                "source": rng.pick(["cosmogenic", "astrophysical"])}

    def setup(self, cfg):
        import pyrex
        P = self.pyrex = pyrex
        self.cfg = cfg
        kw = dict(energy=1e9, flavor_ratio=tuple(cfg["ratio"]), source=cfg["source"])
        if cfg["kind"] == "cylindrical":
            self.gen = P.CylindricalGenerator(dr=cfg["dr"], dz=cfg["dz"], **kw)
        else:
            self.gen = P.RectangularGenerator(dx=cfg["dx"], dy=cfg["dy"], dz=cfg["dz"], **kw)

    def draw_op(self, rng):
        return {"op": "sample"}

    def apply(self, op):
        cfg, gen, N = self.cfg, self.gen, self.N
        st, data = self.sut(lambda: ([gen.get_vertex() for _ in range(N)],
                                     [gen.get_direction() for _ in range(N)],
                                     [gen.get_particle_type() for _ in range(N)]), where="sampling")
        V = np.array(data[0], dtype=float)
        D = np.array(data[1], dtype=float)
        ids = np.array([t.value for t in data[2]])
        self.nontrivial = True
        crit = ks_critical(N)
        laws = {}
        if cfg["kind"] == "cylindrical":
            laws["r^2/R^2"] = (V[:, 0] ** 2 + V[:, 1] ** 2) / cfg["dr"] ** 2
            laws["vertex azimuth"] = (np.arctan2(V[:, 1], V[:, 0]) % (2 * np.pi)) / (2 * np.pi)
        else:
            laws["x"] = V[:, 0] / cfg["dx"] + 0.5
            laws["y"] = V[:, 1] / cfg["dy"] + 0.5
        laws["z"] = -V[:, 2] / cfg["dz"]
        laws["cos(theta)"] = (D[:, 2] + 1) / 2
        laws["direction azimuth"] = (np.arctan2(D[:, 1], D[:, 0]) % (2 * np.pi)) / (2 * np.pi)
        out = {}
        for name, u in laws.items():
            if np.any(u < -1e-12) or np.any(u > 1 + 1e-12):
                raise Violation("C13:out-of-range", "%s leaves its range: min %r max %r"
                                % (name, float(u.min()), float(u.max())))
            dist = ks_uniform(np.clip(u, 0, 1))
            out[name] = round(dist, 5)
            if dist > crit:
                raise Violation("C13:not-uniform", "%s: Kolmogorov-Smirnov distance %.4f from uniform over "
                                "%d draws (1e-9 critical value %.4f)" % (name, dist, N, crit))
        ratio = np.array(cfg["ratio"], dtype=float) / sum(cfg["ratio"])
        nubar = [0.78, 0.61, 0.61] if cfg["source"] == "cosmogenic" else [0.5, 0.5, 0.5]
        for fl, (pid, r, q) in enumerate(zip((12, 14, 16), ratio, nubar)):
            n_fl = int(np.sum(np.abs(ids) == pid))
            sd = math.sqrt(N * r * (1 - r))
            if abs(n_fl - N * r) > Z_1E9 * sd + 1:
                raise Violation("C13:flavour-ratio", "flavour %d drawn %d times of %d, configured fraction %.3f"
                                % (pid, n_fl, N, r))
            if n_fl > 100:
                n_nu = int(np.sum(ids == pid))
                sd = math.sqrt(n_fl * q * (1 - q))
                if abs(n_nu - n_fl * q) > Z_1E9 * sd + 1:
                    raise Violation("C13:nu-nubar-ratio", "flavour %d: %d neutrinos of %d, expected fraction %.2f"
                                    % (pid, n_nu, n_fl, q))
        return ["sample", out]


MACHINES = [C13Events, C13Distributions]
