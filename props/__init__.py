"""Registry: property id -> list of Machine classes."""
import importlib

MODULES = {
    "C04": "props.c04_signals",
    "C06": "props.c06_lazy",
    "C09": "props.c09_antenna",
    "C10": "props.c10_kernel",
    "C11": "props.c11_roundtrip",
    "C12": "props.c12_access",
    "C13": "props.c13_generators",
    "C14": "props.c14_interactions",
    "C17": "props.c17_noise",
    "C19": "props.c19_detector",
}


def machines_for(prop):
    if prop not in MODULES:
        raise SystemExit("HARNESS-ERROR: property %s has no check (not claimed)" % prop)
    return list(importlib.import_module(MODULES[prop]).MACHINES)
