"""Shared world-building for the HDF5 machines (C11, C12).

Everything that goes into a file carries a tag unique to (event, antenna,
ray / waveform / particle), so that every stored cell is attributable to one
add() call: real Event/Particle objects, real antennas holding real (noisy or
noiseless) waveforms, real SpecializedRayTracer path objects with a geometry
unique per (event, antenna, ray), unit polarisation vectors.
"""
import numpy as np

from sim import seams
from sim.engine import Violation

TRIG_KEYS = ["particles", "triggers", "antenna_triggers", "waveforms", "rays", "noise"]
TIMES_N = 12
DT = 1e-9

_PATH_CACHE = {}


def ray_path(pyrex, e, i, j):
    """A real ray path with a geometry unique to (event tag, antenna, ray)."""
    key = (e % 23, i, j)
    if key not in _PATH_CACHE:
        src = (20.0 + 7.0 * key[0] + 3.0 * j, 4.0 * i + 1.0, -200.0 - 5.0 * key[0] - 11.0 * j)
        dst = (0.0, 10.0 * i, -80.0 - 10.0 * i)
        sols = pyrex.RayTracer(src, dst).solutions
        if not sols:
            raise RuntimeError("no ray solution for the harness geometry %r" % (key,))
        _PATH_CACHE[key] = sols
    sols = _PATH_CACHE[key]
    return sols[j % len(sols)]


def unit(v):
    v = np.asarray(v, dtype=float)
    return v / np.linalg.norm(v)


def make_antenna_class(pyrex, threshold):
    class ThrAntenna(pyrex.Antenna):
        def trigger(self, signal):
            return bool(np.max(np.abs(signal.values)) > threshold) if len(signal.values) else False
    return ThrAntenna


class World:
    """Detector + builders for events and add() arguments + reference records."""

    def __init__(self, pyrex, n_ant, noisy, threshold=0.5, use_proxies=True):
        self.pyrex = pyrex
        self.n_ant = n_ant
        self.noisy = noisy
        self.threshold = threshold
        self.plan = seams.FaultPlan()
        cls = make_antenna_class(pyrex, threshold)
        # with noisy == "mixed" every other antenna is noiseless (it never has a noise basis)
        self.antennas = [cls(position=(0.0, 10.0 * i, -80.0 - 10.0 * i),
                             noisy=(bool(i % 2) if noisy == "mixed" else bool(noisy)),
                             freq_range=(0.05 / DT, 0.4 / DT), noise_rms=0.05,
                             unique_noise_waveforms=2) for i in range(n_ant)]
        if use_proxies:
            self.detector = [seams.Proxy(a, self.plan, "antenna%d" % i)
                             for i, a in enumerate(self.antennas)]
        else:
            self.detector = list(self.antennas)

    # -- building one event's worth of objects ------------------------------
    def make_event(self, spec):
        P = self.pyrex
        tag = spec["tag"]
        parts = []
        ids = ["nu_e", "nu_mu_bar", "nu_tau", "nu_e_bar", "nu_mu", "nu_tau_bar"]
        for k in range(spec["np"]):
            p = P.Particle(ids[(tag + k) % 6], vertex=(float(tag), float(k), -300.0 - tag),
                           direction=unit((1.0 + k, 0.5 * tag + 0.1, -1.0)),
                           energy=1e6 * (tag + 1) + k,
                           interaction_type=("cc" if (tag + k) % 2 == 0 else "nc"))
            p.survival_weight = 0.0 if (tag + k) % 5 == 3 else 0.5 + 0.01 * tag
            p.interaction_weight = 0.0 if (tag + k) % 7 == 5 else 1e-3 * (k + 1)
            parts.append(p)
        if spec.get("tree") == "chain" and len(parts) > 1:
            ev = P.Event(parts[0])
            for a, b in zip(parts[:-1], parts[1:]):
                ev.add_children(a, b)
        else:
            ev = P.Event(list(parts))
        return ev

    def load_antennas(self, spec, reset_noise=False):
        """Clear the detector and let antenna i receive spec['rays'][i] signals."""
        P = self.pyrex
        tag = spec["tag"]
        for i, ant in enumerate(self.antennas):
            ant.clear(reset_noise=reset_noise)
            for j in range(spec["rays"][i]):
                t = DT * (100 * tag + 20 * j + np.arange(TIMES_N + i))
                amp = spec.get("amps", {}).get("%d,%d" % (i, j), 0.2 + 0.1 * ((tag + i + j) % 9))
                vals = amp * np.sin(np.pi * np.arange(len(t)) / (len(t) - 1)) ** 2 \
                    * (1 + 0.001 * tag + 0.01 * i + 0.1 * j)
                ant.receive(P.Signal(t, vals, value_type=P.Signal.Type.voltage))

    def ray_args(self, spec):
        tag = spec["tag"]
        paths, pols = [], []
        for i in range(self.n_ant):
            pi, qi = [], []
            for j in range(spec["rays"][i]):
                # (optionally every antenna is handed the very same path objects as antenna 0 -
                # co-located antennas - while the polarizations stay per antenna)
                pi.append(ray_path(self.pyrex, tag, 0 if spec.get("share_paths") else i, j))
                qi.append(unit((1.0 + tag, 2.0 + i, 3.0 + j)))
            paths.append(pi)
            pols.append(qi)
        return paths, pols

    def trigger_arg(self, spec):
        t = spec["trig"]
        if t["type"] == "none":
            return None
        if t["type"] == "bool":
            return bool(t["global"])
        d = {"global": bool(t["global"])}
        seq_as = t.get("seq_as", "list")
        for k, v in t.get("extra", {}).items():
            if isinstance(v, list):
                d[k] = tuple(v) if seq_as == "tuple" else (np.array(v, dtype=bool) if seq_as == "ndarray" else list(v))
            else:
                d[k] = bool(v)
        return d

    # -- reference record of what an accepted add() must have stored ----------
    def record(self, spec, event, paths, pols, opts, trig_only):
        """Deep-copied reference data, filtered by options and trigger status."""
        t = spec["trig"]
        glob = bool(t["global"]) if t["type"] != "none" else None

        def on(key):
            return opts[key] and (not trig_only[key] or bool(glob))
        rec = {"tag": spec["tag"]}
        rec["particles"] = [dict(m) for m in event._metadata] if on("particles") else None
        if on("triggers"):
            rec["triggered"] = glob
            comps = {}
            max_waves = max(len(a.all_waveforms) for a in self.antennas)
            if t["type"] == "dict":
                for k, v in t.get("extra", {}).items():
                    comps[k] = (any(v[:max_waves]) if isinstance(v, list) else bool(v)) and max_waves > 0
            if opts["antenna_triggers"] and (not trig_only["antenna_triggers"] or bool(glob)):
                for i, a in enumerate(self.antennas):
                    comps["antenna_%d" % i] = any(
                        bool(np.max(np.abs(w.values)) > self.threshold) for w in a.all_waveforms)
            rec["components"] = comps
            # per waveform row (what get_triggered_components(ray=j) must list)
            rows = []
            for j in range(max_waves):
                row = set()
                if t["type"] == "dict":
                    for k, v in t.get("extra", {}).items():
                        if (v[j] if isinstance(v, list) else bool(v)):
                            row.add(k)
                if opts["antenna_triggers"] and (not trig_only["antenna_triggers"] or bool(glob)):
                    for i, a in enumerate(self.antennas):
                        ws = a.all_waveforms
                        if j < len(ws) and bool(np.max(np.abs(ws[j].values)) > self.threshold):
                            row.add("antenna_%d" % i)
                rows.append(sorted(row))
            rec["component_rows"] = rows if comps else []
            rec["has_components"] = bool(comps) or (t["type"] == "dict" and len(t.get("extra", {})) > 0)
        else:
            rec["triggered"] = "absent"
            rec["components"] = None
        if on("rays"):
            rows = []
            for i in range(self.n_ant):
                row = []
                for p, q in zip(paths[i], pols[i]):
                    m = dict(seams.unwrap(p)._metadata)
                    m.update({"polarization_x": q[0], "polarization_y": q[1], "polarization_z": q[2]})
                    row.append({k: float(v) for k, v in m.items()})
                rows.append(row)
            rec["rays"] = rows
        else:
            rec["rays"] = None
        if on("waveforms"):
            rec["waveforms"] = [[(np.array(w.times, dtype=float), np.array(w.values, dtype=float))
                                 for w in a.all_waveforms] for a in self.antennas]
        else:
            rec["waveforms"] = None
        if on("noise"):
            bases = []
            for a in self.antennas:
                nm = a._noise_master
                if nm is None:
                    bases.append(None)
                else:
                    bases.append((np.array(nm.freqs, dtype=float), np.array(nm.amps, dtype=float),
                                  np.array(nm.phases, dtype=float)))
            rec["noise"] = bases
        else:
            rec["noise"] = None
        return rec


# ---------------------------------------------------------------------------
# reading an event back into the same shape as a record
# ---------------------------------------------------------------------------

def read_event(ev, n_ant):
    """Everything the public accessors return for the current event."""
    out = {}

    def attempt(fn):
        try:
            return fn()
        except ValueError as e:
            if "not saved in this file" in str(e):
                return "not-in-file"
            raise
    parts = attempt(ev.get_particle_info)
    out["particles"] = parts if isinstance(parts, (list, str)) else (None if len(parts) == 0 else parts)
    trig = attempt(lambda: ev.triggered)
    out["triggered"] = trig if isinstance(trig, str) or trig is None else bool(trig)
    comps = attempt(ev.get_triggered_components)
    out["components"] = comps
    out["component_rows"] = []
    if not isinstance(comps, str):
        for j in range(4):
            out["component_rows"].append(sorted(attempt(lambda: ev.get_triggered_components(ray=j))))
    rays = attempt(ev.get_rays_info)
    out["rays"] = rays if isinstance(rays, (list, str)) else (None if len(rays) == 0 else rays)
    wf = attempt(ev.get_waveforms)
    if isinstance(wf, str):
        out["waveforms"] = wf
    elif len(wf) == 0:
        out["waveforms"] = None
    else:
        per_ant = [[] for _ in range(n_ant)]
        for row in wf:
            for i in range(n_ant):
                t, v = np.asarray(row[i][0], dtype=float), np.asarray(row[i][1], dtype=float)
                per_ant[i].append((t, v))
        out["waveforms"] = per_ant
    nb = attempt(lambda: ev.noise_bases)
    if isinstance(nb, str):
        out["noise"] = nb
    elif len(nb) == 0:
        out["noise"] = None
    else:
        out["noise"] = [tuple(np.asarray(x, dtype=float) for x in nb[i]) for i in range(n_ant)]
    return out


def _eq_float(a, b):
    a, b = float(a), float(b)
    return a == b or (a != a and b != b)


def compare(rec, got, where, n_ant):
    """Field-by-field comparison of one event's read-back with its record."""
    tag = rec["tag"]

    def bad(kind, msg):
        raise Violation("C11:" + kind, "%s, event with tag %d: %s" % (where, tag, msg))

    # particles
    gp = got["particles"]
    if rec["particles"] is None:
        if gp not in (None, "not-in-file"):
            bad("particles-unexpected", "%d particles read back, none recorded" % len(gp))
    else:
        if gp in (None, "not-in-file"):
            bad("particles-missing", "no particle data read back")
        if len(gp) != len(rec["particles"]):
            bad("particle-count", "%d particles read back, %d recorded" % (len(gp), len(rec["particles"])))
        for k, (g, r) in enumerate(zip(gp, rec["particles"])):
            for key, val in r.items():
                if key not in g:
                    bad("particle-field", "particle %d lacks %r" % (k, key))
                if isinstance(val, str):
                    if g[key] != val:
                        bad("particle-field", "particle %d %s=%r, recorded %r" % (k, key, g[key], val))
                elif not _eq_float(g[key], val):
                    bad("particle-field", "particle %d %s=%r, recorded %r" % (k, key, g[key], val))
    # global trigger
    gt = got["triggered"]
    if rec["triggered"] == "absent":
        if gt not in (None, "not-in-file"):
            bad("trigger-unexpected", "trigger %r read back, none recorded" % (gt,))
    elif gt != rec["triggered"]:
        bad("trigger", "trigger %r read back, recorded %r" % (gt, rec["triggered"]))
    # component triggers (stored per waveform row: only comparable when rows exist)
    if rec["components"] is not None:
        gc = got["components"]
        want = sorted(k for k, v in rec["components"].items() if v)
        if gc == "not-in-file":
            if want:
                bad("components", "no component trigger data in file, recorded %r" % (want,))
        else:
            have = sorted(gc)
            if have != want:
                bad("components", "triggered components %r read back, recorded %r" % (have, want))
            for j, wrow in enumerate(rec.get("component_rows", [])):
                if j < len(got["component_rows"]) and got["component_rows"][j] != wrow:
                    bad("components-by-ray", "components of waveform row %d: %r read back, recorded %r"
                        % (j, got["component_rows"][j], wrow))
    # rays
    gr = got["rays"]
    if rec["rays"] is None or all(len(r) == 0 for r in rec["rays"]):
        if gr not in (None, "not-in-file"):
            # rows may exist only if something was recorded
            if rec["rays"] is None:
                bad("rays-unexpected", "%d ray rows read back, none recorded" % len(gr))
    else:
        if gr in (None, "not-in-file"):
            bad("rays-missing", "no ray data read back")
        n_rows = max(len(r) for r in rec["rays"])
        if len(gr) != n_rows:
            bad("ray-rows", "%d ray rows read back, %d recorded" % (len(gr), n_rows))
        for i in range(n_ant):
            for j, r in enumerate(rec["rays"][i]):
                g = gr[j][i]
                for key, val in r.items():
                    if key not in g or not _eq_float(g[key], val):
                        bad("ray-field", "antenna %d ray %d %s=%r, recorded %r"
                            % (i, j, key, g.get(key), val))
    # waveforms
    gw = got["waveforms"]
    if rec["waveforms"] is None or all(len(w) == 0 for w in rec["waveforms"]):
        if gw not in (None, "not-in-file") and rec["waveforms"] is None:
            bad("waveforms-unexpected", "waveform rows read back, none recorded")
    else:
        if gw in (None, "not-in-file"):
            bad("waveforms-missing", "no waveform data read back")
        for i in range(n_ant):
            for j, (t, v) in enumerate(rec["waveforms"][i]):
                if j >= len(gw[i]):
                    bad("waveform-rows", "antenna %d waveform %d missing" % (i, j))
                gt_, gv_ = gw[i][j]
                if not (np.array_equal(gt_, t) and np.array_equal(gv_, v)):
                    bad("waveform-values", "antenna %d waveform %d differs from the recorded one" % (i, j))
    # noise
    gn = got["noise"]
    if rec["noise"] is None:
        if gn not in (None, "not-in-file"):
            bad("noise-unexpected", "noise bases read back, none recorded")
    else:
        if gn in (None, "not-in-file"):
            bad("noise-missing", "no noise bases read back")
        for i, basis in enumerate(rec["noise"]):
            if basis is None:
                if any(len(x) for x in gn[i]):
                    bad("noise-values", "antenna %d has a noise basis, none recorded" % i)
                continue
            for x, y in zip(gn[i], basis):
                if not np.array_equal(x, y):
                    bad("noise-values", "antenna %d noise basis differs from the recorded one" % i)
