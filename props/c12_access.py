"""C12 - every way of reading or continuing a file yields the same event stream.

An add sequence (ragged rows per event) is written once in a single session
(reference file) and again split into 1-4 append sessions, each session a
*restart*: new writer object, counters recovered from the simulated disk,
detector re-linked, simulated clock advanced or jumped backwards.  Then a
battery of readers - each again a fresh object - must return, event for
event, the data of one sequential pass over the reference file: iteration
with any chunk size, integer indexing, slicing in all spellings, two
interleaved iterators, FileGenerator over file lists; out-of-range accesses
must raise and not corrupt the next access.
"""
import numpy as np

from sim.engine import Machine, Violation, Skip, digest_of
from sim import seams
from props import io_common
from props.io_common import World
from props.c11_roundtrip import draw_options, trig_only_of


def canon_event(read):
    """Digest-able form of io_common.read_event output."""
    def conv(x):
        if isinstance(x, str) and x == "not-in-file":
            # "this kind of data is not in the file at all" and "nothing recorded for this
            # event" are the same answer at the event level
            return None
        if isinstance(x, dict):
            return {k: conv(v) for k, v in x.items()}
        if isinstance(x, (list, tuple)):
            return [conv(v) for v in x]
        if isinstance(x, np.ndarray):
            return x if x.dtype != object else [conv(v) for v in x.tolist()]
        return x
    out = conv(read)
    # "no component trigger table" and "no component triggered" coincide at the event level
    if not out.get("components"):
        out["components"] = []
    # the order in which component names are listed follows the column order of the
    # table, which is not part of the event's data
    out["components"] = sorted(out["components"])
    if not any(out.get("component_rows") or []):
        out["component_rows"] = []
    return out


class C12Access(Machine):
    prop_id = "C12"
    name = "access"
    level = "exploration"
    budget = {"quick": 560, "thorough": 40000}
    max_steps = 14
    rule = ("seeded histories: 2-8 events with ragged rows written in one session (reference) and split "
            "into 1-4 append sessions with restarts and clock jumps (also backwards), then <=12 reader "
            "operations (iteration with slice_range 1..n+2/None, every index -n..n-1, slices in positive / "
            "negative / None spellings with step>=1, interleaved iterators, FileGenerator over file lists, "
            "out-of-range accesses); a fraction of runs enumerates ALL slices 0<=a<b<=n, 1<=c<=n in all "
            "spellings (n<=7); non-trivial = more than one append session, or a step>1 / negative spelling "
            "/ chunk boundary inside the access, or a fault; distinct = history digest")
    components = {"real": ["HDF5Writer (append-mode counter recovery)", "HDF5Reader.__getitem__/__iter__",
                           "EventIterator", "File", "FileGenerator", "h5py on SimDisk", "SimClock"],
                  "stub": []}
    assumptions = ["/file_metadata (timestamps, script names) excluded; files with zero events are not put "
                   "in FileGenerator lists; total_thrown apportioning is not judged",
                   "every event records particles (a file without particle table cannot be iterated)"]
    required_counters = ("seam.file_opens", "probe.multi_session", "op.slice", "op.index", "op.filegen", "op.interleave",
                         "fault.bad_access", "probe.negative_spelling", "probe.step_gt_1",
                         "probe.clock_backwards")

    # ------------------------------------------------------------------
    def draw_config(self, rng):
        opts, req = draw_options(rng)
        if isinstance(req, list):
            req = [k for k in req if k != "particles"]
        n_ant = rng.randint(1, 3)
        n = rng.randint(2, 8)
        events = []
        for tag in range(n):
            rays = [rng.pick([0, 1, 1, 2, 3]) for _ in range(n_ant)]
            glob = rng.chance(0.6)
            if rng.chance(0.5):
                mw = max(rays)
                extra = {k: (rng.chance(0.5) if rng.chance(0.5) else [rng.chance(0.5) for _ in range(mw)])
                         for k in rng.pick([["a"], ["a", "b"], []])}
                trig = {"type": "dict", "global": glob, "extra": extra}
            else:
                trig = {"type": "bool", "global": glob}
            events.append({"tag": tag, "np": rng.randint(1, 4), "rays": rays, "trig": trig,
                           "thrown": rng.randint(1, 4), "tree": rng.pick(["roots", "chain"]),
                           "reset_noise": True})
        return {"n_steps": rng.pick([4, 6, 9, 12]), "n_ant": n_ant, "opts": opts, "require_trigger": req,
                "noisy": rng.chance(0.4), "events": events,
                "exhaustive": n <= 7 and rng.chance(0.04)}

    def setup(self, cfg):
        import pyrex
        self.pyrex = pyrex
        self.cfg = cfg
        self.disk = seams.SimDisk()
        seams.set_disk(self.disk)
        self.clock = seams.SimClock()
        seams.set_clock(self.clock)
        self.world = World(pyrex, cfg["n_ant"], cfg["noisy"], use_proxies=False)
        self.opts = cfg["opts"]
        self.n = len(cfg["events"])
        self.files = {}      # label -> number of events
        self.ref = None      # list of canonical event reads (sequential pass over the reference file)
        self.ref_digest = None
        self.written = False

    # ------------------------------------------------------------------
    def _sessions(self, rng, n):
        k = rng.randint(1, 4)
        cuts = sorted(rng.randint(0, n) for _ in range(k - 1))
        sizes = [b - a for a, b in zip([0] + cuts, cuts + [n])]
        out = []
        for i, s in enumerate(sizes):
            out.append({"n": s, "mode": (rng.pick(["w", "x", "a"]) if i == 0 else rng.pick(["a", "r+"])),
                        # sessions with the same slot number re-open one and the same writer object
                        # (other writers may have appended in between); None = a fresh writer
                        "reuse": rng.pick([None, None, 0, 0, 1]),
                        "jump": rng.pick([60.0, 3600.0, 86400.0 * 40, -7200.0, -86400.0 * 400]),
                        # positions (within the session) before which an add is rejected: the
                        # rejected event's rows stay behind as a gap between accepted events
                        "rejects": sorted(set(rng.randrange(0, s + 1) for _ in range(rng.pick([0, 0, 1, 2]))))
                        if s else []})
        return out

    def draw_op(self, rng):
        n = self.n
        if not self.written:
            return {"op": "write", "A": self._sessions(rng, n),
                    "B": self._sessions(rng, n) if rng.chance(0.4) else None}
        have_b = "B" in self.files
        f = rng.pick(["A", "A", "B", "R"] if have_b else ["A", "A", "A", "R"])
        kinds = [("iterate", 2.0), ("index", 1.5), ("slice", 3.0), ("interleave", 1.0),
                 ("filegen", 1.5), ("bad_access", 0.8), ("reader_waveforms", 0.8 if self.opts["waveforms"] else 0.0)]
        if self.cfg["exhaustive"]:
            kinds.append(("all_slices", 1.0))
        k = rng.weighted(kinds)
        if k == "iterate":
            return {"op": "iterate", "file": f, "slice_range": rng.pick([None] + list(range(1, n + 3))),
                    "via": rng.pick(["reader", "File", "with"])}
        if k == "index":
            op = {"op": "index", "file": f, "i": rng.randint(-n, n - 1),
                  "slice_range": rng.pick([None, 1, 2, 3])}
            if rng.chance(0.5):
                # further events are fetched by index before the first one is looked at
                op["also"] = [rng.randint(-n, n - 1) for _ in range(rng.randint(1, 3))]
            return op
        if k == "slice":
            a = rng.randint(0, n - 1)
            b = rng.randint(a + 1, n)
            c = rng.pick([1, 1, 2, 3, n, rng.randint(1, n)])
            spell = rng.pick(["pos", "neg", "none", "mixed"])
            return {"op": "slice", "file": f, "a": a, "b": b, "c": c, "spell": spell,
                    "slice_range": rng.pick([None, 1, 2, 3, n + 2])}
        if k == "interleave":
            return {"op": "interleave", "file": f, "k1": rng.pick([1, 2, 3, None]),
                    "k2": rng.pick([1, 2, None]), "pattern": [rng.randrange(2) for _ in range(2 * n + 2)]}
        if k == "filegen":
            files = [rng.pick(["A", "B", "R"] if have_b else ["A", "R"]) for _ in range(rng.randint(1, 3))]
            return {"op": "filegen", "files": files, "slice_range": rng.pick([1, 2, 3, n, n + 5, 100])}
        if k == "reader_waveforms":
            return {"op": "reader_waveforms", "file": f, "i": rng.randint(0, n - 1)}
        if k == "bad_access":
            return {"op": "bad_access", "file": f,
                    "how": rng.pick(["index_high", "index_low", "step0", "step_neg", "slice_oob", "slice_oob_low"]),
                    "then": rng.randint(0, n - 1)}
        return {"op": "all_slices", "file": f, "slice_range": rng.pick([None, 1, 2])}

    # ------------------------------------------------------------------
    def _fname(self, label):
        return "sim://c12_%s.h5" % label

    def _write_file(self, label, sessions):
        P = self.pyrex
        o = self.opts
        specs = self.cfg["events"]
        pos = 0
        name = self._fname(label)
        slots = {}
        for si, sess in enumerate(sessions):
            before = self.clock.t
            self.clock.advance(sess["jump"])
            if self.clock.t < before:
                self.count("probe.clock_backwards")
            mode = sess["mode"]
            if si == 0 and mode in ("x", "a") and self.disk.exists(name):
                mode = "w"
            slot = sess.get("reuse") if mode in ("a", "r+") else None
            if slot is not None and slot in slots:
                w = slots[slot]
                self.count("probe.writer_object_reopened")
            else:
                w = P.io.HDF5Writer(name, mode=mode, write_particles=True,
                                    write_triggers=o["triggers"], write_antenna_triggers=o["antenna_triggers"],
                                    write_rays=o["rays"], write_noise=o["noise"], write_waveforms=o["waveforms"],
                                    require_trigger=self.cfg["require_trigger"])
                if slot is not None:
                    slots[slot] = w
            self.sut(w.open, where="writer.open(%s)" % mode)
            self.sut(w.set_detector, self.world.detector, where="set_detector")
            for local_i, spec in enumerate(specs[pos:pos + sess["n"]] + [None]):
                if local_i in sess.get("rejects", []):
                    self._rejected_add(w, 100 + pos + local_i)
                if spec is None:
                    break
                # identical random stream per event in every file: same noise
                self.np.reseed(1000 + spec["tag"])
                event = self.world.make_event(spec)
                self.world.load_antennas(spec, reset_noise=True)
                if self.cfg["noisy"]:
                    for a in self.world.antennas:
                        a.all_waveforms
                paths, pols = self.world.ray_args(spec)
                trig = self.world.trigger_arg(spec)
                self.sut(w.add, event, triggered=trig, ray_paths=paths, polarizations=pols,
                         events_thrown=spec["thrown"], where="add")
            pos += sess["n"]
            self.sut(w.close, where="writer.close")
            # restart: only the disk survives (and writer objects kept for a later session)
            del w
        self.files[label] = len(specs)

    def _rejected_add(self, w, tag):
        """An add() that is rejected after part of its rows were written."""
        spec = {"tag": tag, "np": 2, "rays": [1] * self.cfg["n_ant"], "tree": "roots",
                "trig": {"type": "bool", "global": True}}
        self.np.reseed(5000 + tag)
        event = self.world.make_event(spec)
        self.world.load_antennas(spec, reset_noise=True)
        paths, pols = self.world.ray_args(spec)
        try:
            # unsupported trigger type: raised by the trigger stage (or, when triggers are not
            # consulted by this option set, the add simply is an ordinary extra... so use rays)
            if self.opts["rays"]:
                w.add(event, triggered=True, ray_paths=paths[:-1] + [paths[-1] + paths[-1]],
                      polarizations=pols, events_thrown=1)
            else:
                w.add(event, triggered="yes", ray_paths=paths, polarizations=pols, events_thrown=1)
        except (ValueError, TypeError):
            self.count("fault.rejected_add_in_session")
            return
        # this option set never looks at the faulty argument: the add was an accepted event,
        # which would change the event stream -> not a history of this machine
        raise Skip("rejected add not applicable to the option set")

    def _open_reader(self, label, slice_range=None, via="reader"):
        P = self.pyrex
        name = self._fname(label)
        if via == "File" or via == "with":
            r = P.File(name, "r", slice_range=slice_range)
        else:
            r = P.io.HDF5Reader(name, slice_range=slice_range)
        self.sut(r.open, where="reader.open")
        return r

    def _read(self, ev):
        return canon_event(io_common.read_event(ev, self.cfg["n_ant"]))

    def _expect(self, got_list, want_idx, what):
        want = [self.ref_digest[i] for i in want_idx]
        got = [digest_of(g) for g in got_list]
        if len(got) != len(want):
            raise Violation("C12:event-count", "%s returned %d events, expected %d (%r)"
                            % (what, len(got), len(want), list(want_idx)))
        for pos, (g, w, i) in enumerate(zip(got, want, want_idx)):
            if g != w:
                which = [j for j, d in enumerate(self.ref_digest) if d == g]
                field = self._first_difference(got_list[pos], self.ref[i])
                raise Violation("C12:wrong-event",
                                "%s: position %d should be event %d of the sequential pass but %s "
                                "(first differing field: %s)"
                                % (what, pos, i, ("is event %r" % which) if which
                                   else "matches no event of the file", field))

    @staticmethod
    def _first_difference(a, b):
        for k in a:
            if digest_of(a[k]) != digest_of(b.get(k)):
                return k
        return "?"

    # ------------------------------------------------------------------
    def apply(self, op):
        name = op["op"]
        self.count("op." + name)
        if name != "write" and not self.written:
            raise Skip("nothing written yet")
        if op.get("file") and op["file"] not in self.files:
            raise Skip("file not written")
        if any(f not in self.files for f in op.get("files", [])):
            raise Skip("file not written")
        return getattr(self, "_op_" + name)(op)

    def _op_write(self, op):
        self._write_file("R", [{"n": self.n, "mode": "w", "jump": 10.0}])
        labels = [l for l in ("A", "B") if op.get(l)]
        for label in labels:
            sess = op[label]
            if sum(s["n"] for s in sess) != self.n:
                raise Skip("session sizes do not add up")
            self._write_file(label, sess)
            if len([s for s in sess if s["n"] > 0]) > 1:
                self.count("probe.multi_session")
                self.nontrivial = True
        r = self._open_reader("R")
        try:
            st, ref = self.sut(lambda: [self._read(ev) for ev in r], where="reference pass")
        finally:
            r.close()
        if len(ref) != self.n:
            raise Violation("C12:reference-count", "reference pass yields %d of %d events" % (len(ref), self.n))
        self.ref = ref
        self.ref_digest = [digest_of(x) for x in ref]
        self.written = True
        # session-split files must be indistinguishable at the event level
        for label in labels:
            r = self._open_reader(label)
            try:
                st, ln = self.sut(len, r, where="len")
                if ln != self.n:
                    raise Violation("C12:event-count", "file %s written in %d sessions reports %d events, "
                                    "%d were added" % (label, len(op[label]), ln, self.n))
                st, got = self.sut(lambda: [self._read(ev) for ev in r], where="iterate")
            finally:
                r.close()
            self._expect(got, range(self.n), "sequential pass over session-split file %s" % label)
        return ["write", self.n] + [[s["n"] for s in op[l]] for l in labels]

    def _op_iterate(self, op):
        if op["via"] == "with":
            P = self.pyrex
            def run():
                with P.File(self._fname(op["file"]), "r", slice_range=op["slice_range"]) as f:
                    return [self._read(ev) for ev in f]
            st, got = self.sut(run, where="with File")
        else:
            r = self._open_reader(op["file"], op["slice_range"], op["via"])
            try:
                st, got = self.sut(lambda: [self._read(ev) for ev in r], where="iterate")
            finally:
                r.close()
        if op["slice_range"] is not None and op["slice_range"] < self.n:
            self.nontrivial = True
        self._expect(got, range(self.n), "iteration with slice_range=%r" % (op["slice_range"],))
        return ["iterate", len(got)]

    def _op_index(self, op):
        r = self._open_reader(op["file"], op["slice_range"])
        try:
            idx = [op["i"]] + list(op.get("also", []))
            st, held = self.sut(lambda: [r[i] for i in idx], where="getitem(int)")
            st, got = self.sut(lambda: [self._read(ev) for ev in held], where="read of indexed events")
        finally:
            r.close()
        if op["i"] < 0:
            self.count("probe.negative_spelling")
            self.nontrivial = True
        if len(idx) > 1:
            self.count("probe.indexed_events_held_together")
        self._expect(got, [i % self.n for i in idx], "file[i] for i in %r (all fetched before any was read)" % (idx,))
        return ["index", idx]

    def _spell(self, a, b, c, spell):
        n = self.n
        sa, sb = a, b
        if spell in ("neg", "mixed") and a > 0:
            sa = a - n
        if spell == "neg" and b < n:
            sb = b - n
        if spell == "none":
            sa = None if a == 0 else a
            sb = None if b == n else b
        if spell == "mixed" and b == n:
            sb = None
        sc = None if (c == 1 and spell == "none") else c
        return slice(sa, sb, sc)

    def _op_slice(self, op):
        n = self.n
        a, b, c = op["a"], op["b"], op["c"]
        if not (0 <= a < b <= n and c >= 1):
            raise Skip("slice out of the quantified range")
        sl = self._spell(a, b, c, op["spell"])
        r = self._open_reader(op["file"], op["slice_range"])
        try:
            st, got = self.sut(lambda: [self._read(ev) for ev in r[sl]], where="getitem(slice)")
        finally:
            r.close()
        if c > 1:
            self.count("probe.step_gt_1")
            self.nontrivial = True
        if (sl.start is not None and sl.start < 0) or (sl.stop is not None and sl.stop < 0):
            self.count("probe.negative_spelling")
            self.nontrivial = True
        self._expect(got, range(n)[a:b:c], "file[%r:%r:%r]" % (sl.start, sl.stop, sl.step))
        return ["slice", a, b, c, op["spell"]]

    def _op_all_slices(self, op):
        n = self.n
        if n > 7:
            raise Skip("exhaustive slices only for n<=7")
        r = self._open_reader(op["file"], op["slice_range"])
        count = 0
        try:
            for a in range(n):
                for b in range(a + 1, n + 1):
                    for c in range(1, n + 1):
                        for spell in ("pos", "neg", "none", "mixed"):
                            sl = self._spell(a, b, c, spell)
                            st, got = self.sut(lambda: [self._read(ev) for ev in r[sl]],
                                               where="getitem(slice)")
                            self._expect(got, range(n)[a:b:c],
                                         "file[%r:%r:%r]" % (sl.start, sl.stop, sl.step))
                            count += 1
            for i in range(-n, n):
                st, got = self.sut(lambda: self._read(r[i]), where="getitem(int)")
                self._expect([got], [i % n], "file[%d]" % i)
                count += 1
        finally:
            r.close()
        self.count("probe.exhaustive_slices", count)
        self.nontrivial = True
        return ["all_slices", count]

    def _op_interleave(self, op):
        r = self._open_reader(op["file"], op["k1"])
        try:
            def run():
                its = [iter(r), iter(r)]
                out = [[], []]
                done = [False, False]
                for which in op["pattern"] + [0, 1] * (self.n + 1):
                    if done[which]:
                        continue
                    try:
                        ev = next(its[which])
                    except StopIteration:
                        done[which] = True
                        continue
                    out[which].append(self._read(ev))
                    if all(done):
                        break
                return out
            st, out = self.sut(run, where="interleaved iterators")
        finally:
            r.close()
        self.nontrivial = True
        for w in (0, 1):
            self._expect(out[w], range(self.n), "iterator %d of two interleaved iterators" % w)
        return ["interleave", len(out[0]), len(out[1])]

    def _op_filegen(self, op):
        P = self.pyrex
        names = [self._fname(f) for f in op["files"]]
        expected = []
        for f in op["files"]:
            expected.extend(range(self.n))

        def run():
            gen = P.generation.FileGenerator(names if len(names) > 1 else names[0],
                                             slice_range=op["slice_range"])
            out = []
            for _ in range(len(expected) + 3):
                try:
                    out.append(gen.create_event())
                except StopIteration:
                    break
            else:
                raise Violation("C12:filegen-does-not-stop",
                                "FileGenerator yielded more than %d events" % len(expected))
            return out
        st, events = self.sut(run, where="FileGenerator")
        if len(events) != len(expected):
            raise Violation("C12:filegen-count", "FileGenerator over %r (slice_range=%d) yielded %d events, "
                            "the files hold %d" % (op["files"], op["slice_range"], len(events), len(expected)))
        for pos, (ev, i) in enumerate(zip(events, expected)):
            ref_parts = self.ref[i]["particles"]
            parts = list(ev)
            if len(parts) != len(ref_parts):
                raise Violation("C12:filegen-particles", "generated event %d has %d particles, stored event "
                                "%d has %d" % (pos, len(parts), i, len(ref_parts)))
            for p, d in zip(parts, ref_parts):
                checks = [("particle_id", p.id.value), ("energy", p.energy),
                          ("vertex_x", p.vertex[0]), ("vertex_y", p.vertex[1]), ("vertex_z", p.vertex[2]),
                          ("interaction_kind", p.interaction.kind.value),
                          ("interaction_inelasticity", p.interaction.inelasticity),
                          ("interaction_em_frac", p.interaction.em_frac),
                          ("interaction_had_frac", p.interaction.had_frac),
                          ("survival_weight", p.survival_weight),
                          ("interaction_weight", p.interaction_weight)]
                for key, val in checks:
                    if val is None or float(val) != float(d[key]):
                        raise Violation("C12:filegen-field", "generated event %d (stored event %d): %s=%r, "
                                        "stored %r" % (pos, i, key, val, d[key]))
                for ax, key in enumerate(("direction_x", "direction_y", "direction_z")):
                    if abs(p.direction[ax] - d[key]) > 1e-14:
                        raise Violation("C12:filegen-field", "generated event %d: %s=%r, stored %r"
                                        % (pos, key, p.direction[ax], d[key]))
        if op["slice_range"] < self.n or len(op["files"]) > 1:
            self.nontrivial = True
        return ["filegen", len(events)]

    def _op_reader_waveforms(self, op):
        """Reader-level waveform access by event id must address that event's rows."""
        if not self.opts["waveforms"]:
            raise Skip("waveforms are not written")
        i = op["i"] % self.n
        want = self.ref[i]["waveforms"]
        r = self._open_reader(op["file"])
        try:
            st, got = self.sut(lambda: r.get_waveforms(event_id=i), expect=(ValueError,),
                               where="reader.get_waveforms(event_id)")
        finally:
            r.close()
        if st == "raised":
            if want not in (None, "not-in-file") and any(len(w) for w in want):
                raise Violation("C12:reader-waveforms", "get_waveforms(event_id=%d) raised %r but the event "
                                "has waveforms" % (i, got))
            return ["reader_waveforms", "none"]
        rows = [] if want in (None, "not-in-file") else want
        n_rows = max([len(w) for w in rows], default=0)
        if len(got) != n_rows:
            raise Violation("C12:reader-waveforms", "get_waveforms(event_id=%d) returns %d rows, the event has %d"
                            % (i, len(got), n_rows))
        for a, per_ant in enumerate(rows):
            for j, (t, v) in enumerate(per_ant):
                gt, gv = np.asarray(got[j][a][0], dtype=float), np.asarray(got[j][a][1], dtype=float)
                if not (np.array_equal(gt, np.asarray(t)) and np.array_equal(gv, np.asarray(v))):
                    raise Violation("C12:reader-waveforms", "get_waveforms(event_id=%d): antenna %d waveform %d "
                                    "differs from the sequential pass" % (i, a, j))
        self.count("probe.reader_level_access")
        return ["reader_waveforms", n_rows]

    def _op_bad_access(self, op):
        n = self.n
        how = op["how"]
        r = self._open_reader(op["file"])
        try:
            if how == "index_high":
                call, exc = (lambda: r[n]), (IndexError,)
            elif how == "index_low":
                call, exc = (lambda: r[-n - 1]), (IndexError,)
            elif how == "step0":
                call, exc = (lambda: list(r[0:n:0])), (ValueError,)
            elif how == "step_neg":
                call, exc = (lambda: list(r[::-1])), (ValueError,)
            elif how == "slice_oob":
                call, exc = (lambda: list(r[0:n + 2])), (IndexError,)
            else:
                call, exc = (lambda: list(r[-n - 2:n])), (IndexError,)
            st, res = self.sut(call, expect=exc, where="bad access")
            self.count("fault.bad_access")
            self.nontrivial = True
            if st != "raised":
                raise Violation("C12:bad-access-accepted", "%s did not raise" % how)
            i = op["then"] % n
            st, got = self.sut(lambda: self._read(r[i]), where="access after a refused one")
            self._expect([got], [i], "file[%d] after a refused access" % i)
            st, got = self.sut(lambda: [self._read(ev) for ev in r], where="iterate after a refused access")
            self._expect(got, range(n), "iteration after a refused access")
        finally:
            r.close()
        return ["bad_access", how]

    def finish(self):
        self.count("sim.clock_span_s", int(self.clock.max_t - self.clock.min_t))
        self.count("seam.file_opens", sum(self.disk.opens.values()))
        return self.ref_digest

    def simplify_config(self, cfg):
        if len(cfg["events"]) > 2:
            yield dict(cfg, events=cfg["events"][:-1])
        if cfg["noisy"]:
            yield dict(cfg, noisy=False)
        o = cfg["opts"]
        for k in ("noise", "waveforms", "rays", "antenna_triggers"):
            if o[k]:
                yield dict(cfg, opts=dict(o, **{k: False}))


MACHINES = [C12Access]
