"""C06 - lazily evaluated signals and ray objects never serve stale values.

Two machines:

* ``lazy_signals``  - long-lived FunctionSignal objects (plain, sums, thermal
  noise, Askaryan pulses) receive public mutating operations; *reads* of
  ``.values`` are scheduled between them by the simulator's PRNG.  Oracle 1:
  a fresh twin, rebuilt from scratch from the recorded defining operations
  and never read before the comparison, must report the same values.
  Oracle 2: an independent eager evaluation of the definition where it is
  unambiguous (no filters, or filters with zero buffers).
* ``lazy_tracers``  - ray tracers / ray paths receive assignments of their
  documented attributes with reads in between; a fresh tracer constructed
  with the current defining attributes must agree.
"""
import math
import operator

import numpy as np

from sim.engine import Machine, Violation, Skip
from props.c04_signals import make_function, eval_function

MAX_SUBJECTS = 3


# ---------------------------------------------------------------------------
# response functions (caller supplied)
# ---------------------------------------------------------------------------

def make_response(spec):
    kind = spec["h"]
    if kind == "lp":
        fc = spec["fc"]
        return lambda f: 1 / (1 + 1j * np.asarray(f) / fc)
    if kind == "gain":
        g = spec["g"]
        return lambda f: g + 0 * np.asarray(f)
    if kind == "delay":
        tau = spec["tau"]
        return lambda f: np.exp(-2j * np.pi * np.asarray(f) * tau)
    if kind == "scalar_lp":
        fc = spec["fc"]

        def scalar_lp(f):
            return 1 / complex(1, float(f) / fc)   # TypeError on arrays
        return scalar_lp
    raise ValueError(kind)


def eval_response(fn, freqs, force_real):
    """Independent evaluation of a frequency response on an fft grid."""
    freqs = np.asarray(freqs, dtype=float)
    arg = np.abs(freqs) if force_real else freqs
    try:
        r = np.array(fn(arg), dtype=complex)
        if r.shape != arg.shape:
            raise TypeError
    except (TypeError, ValueError):
        r = np.array([complex(fn(x)) for x in arg], dtype=complex)
    if force_real:
        r = np.where(freqs < 0, np.conj(r), r)
    return r


class Comp:
    def __init__(self, fn, t0=0.0, factor=1.0, buffers=(0.0, 0.0), filters=()):
        self.fn = fn
        self.t0 = t0
        self.factor = factor
        self.buffers = list(buffers)
        self.filters = list(filters)

    def clone(self):
        return Comp(self.fn, self.t0, self.factor, self.buffers, self.filters)


class EagerModel:
    """Independent definition-level model of a FunctionSignal (oracle 2)."""

    def __init__(self, times, comps):
        self.times = np.array(times, dtype=float)
        self.comps = comps
        self.valid = True

    def clone(self):
        m = EagerModel(self.times.copy(), [c.clone() for c in self.comps])
        m.valid = self.valid
        return m

    def set_buffers(self, leading, trailing, force):
        if leading is not None:
            for c in self.comps:
                c.buffers[0] = leading if force else max(leading, c.buffers[0])
        if trailing is not None:
            for c in self.comps:
                c.buffers[1] = trailing if force else max(trailing, c.buffers[1])

    def values(self):
        """Eager evaluation, or None where the statement leaves it open."""
        if not self.valid:
            return None
        n = len(self.times)
        total = np.zeros(n)
        mag = 0.0
        for c in self.comps:
            if c.filters and (c.buffers[0] != 0 or c.buffers[1] != 0):
                return None
            vals = c.factor * eval_function(c.fn, self.times - c.t0)
            pre = float(np.max(np.abs(vals))) if n else 0.0
            if c.filters:
                if n < 2:
                    return None
                dt = self.times[1] - self.times[0]
                freqs = np.fft.fftfreq(2 * n, d=dt)
                resp = np.ones(2 * n, dtype=complex)
                for fn, force_real in c.filters:
                    resp = resp * eval_response(fn, freqs, force_real)
                spec = np.fft.fft(np.concatenate([vals, np.zeros(n)]))
                vals = np.real(np.fft.ifft(resp * spec))[:n]
            total = total + vals
            # FFT round-off is relative to the unfiltered magnitude
            mag += max(pre, float(np.max(np.abs(vals))) if n else 0.0)
        return total, mag


class Subject:
    def __init__(self, obj, defs, model, kind):
        self.obj = obj
        self.defs = defs          # defining ops (dicts), replayed to build twins
        self.model = model        # EagerModel or None
        self.kind = kind
        self.reads = 0
        self.mutated_since_read = False


class C06Signals(Machine):
    prop_id = "C06"
    name = "lazy_signals"
    level = "exploration"
    budget = {"quick": 20000, "thorough": 600000}
    max_steps = 25
    rule = ("seeded histories (<=25 ops) of shift/scale/filter/set_buffers/resample/with_times/"
            "add/copy/times-assignment on long-lived FunctionSignal objects with value reads "
            "scheduled between them (probability 0.3-0.7 per step); non-trivial = at least one "
            "read-mutate-read triple on the same object; distinct = distinct history digest")
    components = {"real": ["pyrex.FunctionSignal", "FullThermalNoise", "FFTThermalNoise",
                           "ARZ/ZHS/AVZ AskaryanSignal", "LazyMutableClass cache"],
                  "stub": []}
    assumptions = ["in-place element mutation of arrays (sig.times[0]=x) is not an attribute "
                   "assignment and is not generated",
                   "oracle 2 (eager definition) only where unambiguous: no filters, or filters "
                   "with zero buffers; fractional-buffer rounding left to the fresh-twin oracle",
                   "a read that raises the same exception type on the fresh twin counts as agreement"]
    required_counters = ("probe.read_mutate_read", "fault.set_buffers_rejected",
                         "probe.oracle2_compared", "op.filter", "op.set_buffers")

    # ------------------------------------------------------------------
    def draw_config(self, rng):
        n = rng.pick([8, 16, 32, 33, 64, 128])
        dt = rng.pick([1e-10, 5e-10, 1e-9, 2e-9])
        t0 = rng.pick([0.0, -20e-9, 100e-9, 1e-6])
        w = {k: 0.2 + rng.random() for k in
             ("new", "shift", "scale", "filter", "set_buffers", "resample",
              "with_times", "add", "copy", "assign_times", "bad_buffers", "aug_times")}
        w["new"] *= 0.5
        return {"n_steps": rng.pick([4, 6, 10, 15, 25]), "n": n, "dt": dt, "t0": t0,
                "read_prob": rng.pick([0.3, 0.5, 0.7]), "weights": w,
                "kinds": rng.pick([["plain"], ["plain", "plain", "noise"],
                                   ["plain", "askaryan"], ["plain", "noise", "askaryan"]])}

    def setup(self, cfg):
        import pyrex
        self.pyrex = pyrex
        self.cfg = cfg
        self.subjects = []

    def _grid(self, n=None, off=0.0):
        cfg = self.cfg
        n = cfg["n"] if n is None else n
        return [cfg["t0"] + cfg["dt"] * (i + off) for i in range(n)]

    def _rand_fn(self, rng):
        span = self.cfg["dt"] * self.cfg["n"]
        f = rng.pick(["cos", "gauss", "gauss", "scalar_sin"])
        if f == "cos":
            return {"f": "cos", "w": float("%.5g" % (rng.uniform(2, 40) / span)),
                    "ph": float("%.3g" % rng.uniform(0, 6))}
        if f == "gauss":
            return {"f": "gauss", "c": float("%.5g" % (span * rng.uniform(-0.2, 1.2))),
                    "w": float("%.5g" % (span * rng.uniform(0.03, 0.3)))}
        return {"f": "scalar_sin", "w": float("%.5g" % (rng.uniform(2, 40) / span))}

    def _rand_resp(self, rng):
        dt = self.cfg["dt"]
        k = rng.pick(["lp", "lp", "gain", "delay", "scalar_lp"])
        if k in ("lp", "scalar_lp"):
            return {"h": k, "fc": float("%.4g" % (rng.uniform(0.02, 0.4) / dt))}
        if k == "gain":
            return {"h": "gain", "g": rng.pick([0.5, 2.0, -1.0])}
        return {"h": "delay", "tau": float("%.4g" % (dt * rng.pick([1, 2, 3.5, 7])))}

    def draw_op(self, rng):
        cfg = self.cfg
        if not self.subjects:
            return self._draw_new(rng)
        i = rng.randrange(len(self.subjects))
        if rng.chance(cfg["read_prob"]):
            return {"op": "read", "i": i, "what": rng.pick(["values", "values", "spectrum", "envelope"])}
        w = cfg["weights"]
        choices = [(k, w[k]) for k in ("shift", "scale", "filter", "set_buffers", "resample",
                                       "with_times", "add", "copy", "assign_times", "bad_buffers",
                                       "aug_times")]
        if len(self.subjects) < MAX_SUBJECTS:
            choices.append(("new", w["new"]))
        k = rng.weighted(choices)
        dt = cfg["dt"]
        if k == "new":
            return self._draw_new(rng)
        if k == "shift":
            return {"op": "shift", "i": i, "dt": dt * rng.pick([1, -1, 3, 0.5, -2.25, 10, 100])}
        if k == "scale":
            return {"op": "scale", "i": i, "how": rng.pick(["imul", "idiv", "mul", "rmul", "div"]),
                    "k": rng.pick([2, 0.5, -1, 3.25, 0, 10])}
        if k == "filter":
            return {"op": "filter", "i": i, "resp": self._rand_resp(rng),
                    "force_real": rng.chance(0.6)}
        if k == "set_buffers":
            def b():
                return rng.pick([None, 0, dt * rng.pick([1, 2, 5, 0.5, 2.5, 10])])
            return {"op": "set_buffers", "i": i, "leading": b(), "trailing": b(),
                    "force": rng.chance(0.4)}
        if k == "bad_buffers":
            return {"op": "set_buffers", "i": i, "leading": dt * rng.pick([1, 3, 5, 8]),
                    "trailing": -dt, "force": rng.chance(0.5)}
        if k == "resample":
            return {"op": "resample", "i": i, "n": rng.pick([cfg["n"], cfg["n"] // 2, cfg["n"] * 2,
                                                              cfg["n"] + 1, 7])}
        if k == "with_times":
            mode = rng.pick(["contained", "contained", "overlap", "disjoint", "same"])
            n = cfg["n"]
            if mode == "contained":
                a = rng.randrange(0, max(1, n // 2))
                m = rng.randint(2, max(2, n - a))
                return {"op": "with_times", "i": i, "rel": [a, m], "mode": mode}
            if mode == "overlap":
                return {"op": "with_times", "i": i, "rel": [rng.pick([-3, n // 2, -n // 2]), n], "mode": mode}
            if mode == "disjoint":
                return {"op": "with_times", "i": i, "rel": [3 * n, n], "mode": mode}
            return {"op": "with_times", "i": i, "rel": [0, n], "mode": mode}
        if k == "add":
            op = {"op": "add", "i": i, "j": rng.randrange(len(self.subjects)),
                  "with_new": self._rand_fn(rng) if rng.chance(0.5) else None}
            if op["with_new"] is not None and rng.chance(0.5):
                # the new operand went through its own filter before the addition
                op["new_filter"] = {"resp": self._rand_resp(rng), "force_real": rng.chance(0.6)}
            return op
        if k == "copy":
            return {"op": "copy", "i": i}
        if k == "aug_times":
            return {"op": "aug_times", "i": i, "k": rng.pick([1, -1, 3, 0.5, 7])}
        if k == "assign_times":
            return {"op": "assign_times", "i": i, "off": rng.pick([0, 1, -2, 0.5, 16]),
                    "n": rng.pick([cfg["n"], cfg["n"] // 2, cfg["n"] + 3])}
        raise AssertionError(k)

    def _draw_new(self, rng):
        kind = rng.pick(self.cfg["kinds"])
        op = {"op": "new", "kind": kind}
        if kind == "plain":
            op["fn"] = self._rand_fn(rng)
        elif kind == "noise":
            op["cls"] = rng.pick(["FFTThermalNoise", "FullThermalNoise"])
            op["u"] = rng.pick([1, 1, 3])
        else:
            op["cls"] = rng.pick(["ARZAskaryanSignal", "ZHSAskaryanSignal", "AVZAskaryanSignal"])
            op["energy"] = rng.pick([1e7, 1e8, 1e9])
            op["angle"] = float("%.4g" % rng.uniform(0.7, 1.2))
            op["t0frac"] = rng.pick([0.2, 0.5])
        return op

    # ------------------------------------------------------------------
    # defining operations: the same function drives the real object and twins
    # ------------------------------------------------------------------
    def _construct(self, d):
        P = self.pyrex
        cfg = self.cfg
        times = np.array(self._grid())
        if d["kind"] == "plain":
            fn = make_function(d["fn"])
            return P.FunctionSignal(times, fn, value_type=P.Signal.Type.voltage), fn
        if d["kind"] == "noise":
            cls = getattr(P.signals, d["cls"])
            band = (0.05 / cfg["dt"], 0.35 / cfg["dt"])
            return cls(times, band, rms_voltage=1.0, uniqueness_factor=d["u"]), None
        cls = getattr(P.askaryan, d["cls"])
        part = P.Particle("nu_e", vertex=(0, 0, -1000), direction=(0, 0, 1),
                          energy=d["energy"], interaction_type="cc")
        t0 = cfg["t0"] + cfg["dt"] * cfg["n"] * d["t0frac"]
        return cls(times=times, particle=part, viewing_angle=d["angle"],
                   viewing_distance=100.0, t0=t0), None

    def _apply_def(self, obj, d, live_other=None):
        """Apply one defining op; returns (new_obj, outcome_tag).  For the real
        object ``live_other`` is the live (possibly read, cached) operand; twins
        rebuild the operand from its recorded definition."""
        name = d["op"]
        if name == "new":
            return self._construct(d)[0], "new"
        if name == "shift":
            obj.shift(d["dt"])
            return obj, "ok"
        if name == "scale":
            k = d["k"]
            how = d["how"]
            if how in ("div", "idiv") and k == 0:
                k = 4
            if how == "imul":
                obj = operator.imul(obj, k)
            elif how == "idiv":
                obj = operator.itruediv(obj, k)
            elif how == "mul":
                obj = obj * k
            elif how == "rmul":
                obj = k * obj
            else:
                obj = obj / k
            return obj, "ok"
        if name == "filter":
            obj.filter_frequencies(make_response(d["resp"]), force_real=d["force_real"])
            return obj, "ok"
        if name == "set_buffers":
            try:
                obj.set_buffers(leading=d["leading"], trailing=d["trailing"], force=d["force"])
            except ValueError:
                return obj, "rejected"
            return obj, "ok"
        if name == "resample":
            obj.resample(d["n"])
            return obj, "ok"
        if name == "with_times":
            new_times = self._window(obj, d)
            return obj.with_times(new_times), "ok"
        if name == "assign_times":
            t = np.asarray(obj.times, dtype=float)
            step = t[1] - t[0]
            obj.times = t[0] + step * (np.arange(d["n"]) + d["off"])
            return obj, "ok"
        if name == "copy":
            return obj.copy(), "ok"
        if name == "aug_times":
            # augmented assignment to the documented attribute (rebinding the same array)
            t = np.asarray(obj.times, dtype=float)
            obj.times += d["k"] * (t[1] - t[0])
            return obj, "ok"
        if name == "add":
            other = live_other if live_other is not None else self._build(d["other_defs"])
            # bring the operand onto this object's grid first (the operand itself
            # is used when it already is on that grid)
            if not (len(other.times) == len(obj.times) and np.array_equal(other.times, obj.times)):
                other = other.with_times(np.array(obj.times))
            return obj + other, "ok"
        raise AssertionError(name)

    def _window(self, obj, d):
        t = np.asarray(obj.times, dtype=float)
        step = t[1] - t[0]
        a, m = d["rel"]
        if d["mode"] == "contained":
            a = min(a, len(t) - 2)
            m = max(2, min(m, len(t) - a))
        return t[0] + step * (a + np.arange(m))

    def _build(self, defs):
        obj = None
        for d in defs:
            self.np.reseed(d["rs"], d.get("inject"))
            obj, _ = self._apply_def(obj, d)
        return obj

    # model updates mirror the *statement*, not the caches
    def _model_def(self, subj_model, d, obj_before_times):
        m = subj_model
        if m is None:
            return None
        name = d["op"]
        if name == "shift":
            m.times = m.times + d["dt"]
            for c in m.comps:
                c.t0 = c.t0 + d["dt"]
        elif name == "scale":
            k = d["k"]
            if d["how"] in ("div", "idiv") and k == 0:
                k = 4
            m = m.clone() if d["how"] in ("mul", "rmul", "div") else m
            for c in m.comps:
                c.factor = c.factor / k if d["how"] in ("div", "idiv") else c.factor * k
        elif name == "filter":
            fn = make_response(d["resp"])
            for c in m.comps:
                c.filters.append((fn, d["force_real"]))
        elif name == "set_buffers":
            bad = (d["leading"] is not None and d["leading"] < 0) or \
                  (d["trailing"] is not None and d["trailing"] < 0)
            if bad:
                # partial application is an implementation choice: oracle 2 only
                # stays valid if buffers cannot matter (no filters, now or later)
                m.valid = False
            else:
                m.set_buffers(d["leading"], d["trailing"], d["force"])
        elif name == "resample":
            if d["n"] != len(m.times):
                m.times = np.linspace(m.times[0], m.times[-1], d["n"])
        elif name == "with_times":
            old = m.times
            new = self._window_from(old, d)
            m = m.clone()
            m.times = new
            if new[0] >= old[0] and new[-1] <= old[-1]:
                m.set_buffers(new[0] - old[0], old[-1] - new[-1], False)
        elif name == "assign_times":
            step = m.times[1] - m.times[0]
            m.times = m.times[0] + step * (np.arange(d["n"]) + d["off"])
        elif name == "copy":
            m = m.clone()
        elif name == "aug_times":
            m.times = m.times + d["k"] * (m.times[1] - m.times[0])
        elif name == "add":
            om = d.get("other_model")
            if om is None:
                return None
            om = om.clone()
            old = om.times
            new = m.times
            om.times = new.copy()
            if new[0] >= old[0] and new[-1] <= old[-1]:
                om.set_buffers(new[0] - old[0], old[-1] - new[-1], False)
            m = m.clone()
            m.comps = m.comps + om.comps
            m.valid = m.valid and om.valid
        return m

    def _window_from(self, t, d):
        step = t[1] - t[0]
        a, m = d["rel"]
        if d["mode"] == "contained":
            a = min(a, len(t) - 2)
            m = max(2, min(m, len(t) - a))
        return t[0] + step * (a + np.arange(m))

    # ------------------------------------------------------------------
    def apply(self, op):
        name = op["op"]
        self.count("op." + name)
        if name == "new":
            if len(self.subjects) >= MAX_SUBJECTS:
                raise Skip("subject pool full")
            st, res = self.sut(self._construct, op, where="construct")
            obj, fn = res
            model = None
            if op["kind"] == "plain":
                model = EagerModel(self._grid(), [Comp(fn)])
            self.subjects.append(Subject(obj, [dict(op)], model, op["kind"]))
            return ["new", op["kind"]]
        if op["i"] >= len(self.subjects):
            raise Skip("no such subject")
        subj = self.subjects[op["i"]]
        if name == "read":
            return self._read(subj, op)
        d = dict(op)
        live_other = None
        if name == "add":
            if op.get("with_new") is not None:
                if subj.kind == "askaryan":
                    raise Skip("operands have different value types")
                other_defs = [{"op": "new", "kind": "plain", "fn": op["with_new"], "rs": op["rs"]}]
                fn = make_function(op["with_new"])
                d["other_model"] = EagerModel(self._grid(), [Comp(fn)])
                nf = op.get("new_filter")
                if nf is not None:
                    other_defs.append({"op": "filter", "i": -1, "resp": nf["resp"],
                                       "force_real": nf["force_real"], "rs": op["rs"]})
                    d["other_model"].comps[0].filters.append((make_response(nf["resp"]), nf["force_real"]))
                    if subj.model is not None and any(c.filters for c in subj.model.comps):
                        self.count("probe.add_of_separately_filtered")
            else:
                if op["j"] >= len(self.subjects):
                    raise Skip("no such operand")
                other = self.subjects[op["j"]]
                if other.obj.value_type != subj.obj.value_type:
                    raise Skip("operands have different value types")
                other_defs = list(other.defs)
                live_other = other.obj
                d["other_model"] = other.model.clone() if other.model is not None else None
            d["other_defs"] = other_defs
        if name in ("with_times", "assign_times", "resample", "aug_times") and len(subj.obj.times) < 2:
            raise Skip("grid too short")
        if name == "resample" and op["n"] < 2:
            raise Skip("resample needs >= 2 points")
        if subj.kind != "plain" and name in ("resample", "assign_times"):
            # grid-based pulse/noise generators are not defined on arbitrary new grids
            if name == "resample" and subj.kind == "askaryan":
                raise Skip("askaryan grids are kept")
        st, res = self.sut(self._apply_def, subj.obj, d, live_other, where=name)
        new_obj, tag = res
        if name == "set_buffers" and tag == "rejected":
            self.count("fault.set_buffers_rejected")
        subj.model = self._model_def(subj.model, d, None)
        subj.obj = new_obj
        subj.defs.append(d)
        if subj.reads > 0:
            subj.mutated_since_read = True
        return [name, tag]

    def _read(self, subj, op):
        what = op["what"]

        def get(o):
            if what == "values":
                return np.array(o.values, dtype=float)
            if what == "spectrum":
                return np.abs(np.asarray(o.spectrum))
            return np.asarray(o.envelope, dtype=float)

        try:
            got = get(subj.obj)
            got_exc = None
        except Exception as e:   # compared with the twin below
            got, got_exc = None, e
        try:
            twin = self._build(subj.defs)
            want = get(twin)
            want_exc = None
        except Exception as e:
            want, want_exc = None, e
        if subj.mutated_since_read:
            self.count("probe.read_mutate_read")
            self.nontrivial = True
        subj.reads += 1
        subj.mutated_since_read = False
        if (got_exc is None) != (want_exc is None) or (
                got_exc is not None and type(got_exc) is not type(want_exc)):
            raise Violation("C06:stale-exception",
                            "reading %s: long-lived object -> %r, fresh twin -> %r"
                            % (what, got_exc or "value", want_exc or "value"))
        if got_exc is not None:
            self.count("probe.read_raises_on_both")
            return ["read", "both-raise", type(got_exc).__name__]
        if len(got) != len(want):
            raise Violation("C06:stale-length", "%s has %d samples, fresh twin %d"
                            % (what, len(got), len(want)))
        if what == "values" and len(got) != len(subj.obj.times):
            raise Violation("C06:length-mismatch", "values/times length differ")
        scale = float(np.max(np.abs(want))) if len(want) else 0.0
        bad = ~(np.abs(got - want) <= 1e-10 * scale + 1e-300)
        if np.any(bad):
            k = int(np.argmax(bad))
            raise Violation("C06:stale-values",
                            "%s[%d]=%r on the long-lived object, %r on a fresh twin "
                            "(max |diff| %.3g, scale %.3g)"
                            % (what, k, got[k], want[k], float(np.max(np.abs(got - want))), scale))
        # oracle 2: eager evaluation of the definition
        if what == "values" and subj.model is not None:
            ev = subj.model.values()
            if ev is not None:
                exp, mag = ev
                self.count("probe.oracle2_compared")
                t_model = subj.model.times
                t_real = np.asarray(subj.obj.times, dtype=float)
                if len(t_model) != len(t_real) or np.max(np.abs(t_model - t_real)) > 1e-9 * (
                        np.max(np.abs(t_real)) + self.cfg["dt"]):
                    raise Violation("C06:times-definition", "times differ from the definition model")
                tol = 1e-9 * mag + 1e-300
                bad = ~(np.abs(got - exp) <= tol)
                if np.any(bad):
                    k = int(np.argmax(bad))
                    raise Violation("C06:values-not-definition",
                                    "values[%d]=%r but eager evaluation of the definition gives %r"
                                    % (k, got[k], exp[k]))
        return ["read", what, len(got)]

    def finish(self):
        # final comparison of every subject
        out = []
        for i, s in enumerate(self.subjects):
            out.append(self._read(s, {"what": "values"}))
        return out

    def simplify_op(self, op):
        if op.get("op") == "new" and op.get("kind") != "plain":
            yield {"op": "new", "kind": "plain", "fn": {"f": "gauss", "c": 0.0, "w": 1e-8},
                   "rs": op.get("rs", 0)}
        if op.get("op") == "read" and op.get("what") != "values":
            yield dict(op, what="values")


MACHINES = [C06Signals]


# ===========================================================================
# Ray tracers and ray paths
# ===========================================================================

def make_ice(spec, pyrex):
    im = pyrex.ice_model
    k = spec["ice"]
    if k == "antarctic":
        kw = {x: spec[x] for x in ("n0", "k", "a") if x in spec}
        return im.AntarcticIce(**kw)
    if k == "greenland":
        return im.GreenlandIce()
    if k == "arasim":
        return im.ArasimIce()
    if k == "uniform":
        return im.UniformIce(spec["index"], valid_range=tuple(spec["range"]),
                             index_above=spec.get("above", 1), index_below=spec.get("below"))
    if k == "layered":
        from pyrex.custom import layered_ice
        layers = [make_ice(s, pyrex) for s in spec["layers"]]
        return layered_ice.LayeredIce(layers, index_above=spec.get("above", 1),
                                      index_below=spec.get("below"))
    raise ValueError(k)


def vec(x):
    return np.array(x, dtype=float)


class C06Tracers(Machine):
    prop_id = "C06"
    name = "lazy_tracers"
    level = "exploration"
    budget = {"quick": 2000, "thorough": 60000}
    max_steps = 14
    rule = ("seeded histories (<=14 ops) of assignments to the documented attributes of ray tracers "
            "(from_point, to_point, ice, dz, max_reflections) and ray paths (theta0, dz, direct, ice, "
            "endpoints) with reads of exists/solutions/tof/path_length/directions scheduled between "
            "them; non-trivial = a read-assign-read triple on the same object; distinct = history digest")
    components = {"real": ["SpecializedRayTracer/Path", "BasicRayTracer/Path", "UniformRayTracer/Path",
                           "LayeredRayTracer", "AntarcticIce/GreenlandIce/ArasimIce/UniformIce/LayeredIce"],
                  "stub": []}
    assumptions = ["in-place mutation of array elements or of a shared ice-model object is not generated",
                   "a read that raises the same exception type on a fresh object counts as agreement"]
    required_counters = ("probe.read_assign_read", "probe.max_reflections_assigned", "op.path_set")

    TRACERS = ["specialized", "specialized", "uniform", "uniform", "layered", "basic"]

    def draw_config(self, rng):
        kind = rng.pick(self.TRACERS)
        return {"n_steps": rng.pick([3, 5, 8, 14]), "tracer": kind,
                "read_prob": rng.pick([0.35, 0.5, 0.65])}

    # -- spec generators -------------------------------------------------
    def _rand_point(self, rng, deep=False):
        return [float("%.4g" % rng.uniform(-300, 300)), float("%.4g" % rng.uniform(-300, 300)),
                float("%.4g" % rng.uniform(-700 if deep else -400, -20))]

    def _rand_ice(self, rng, kind):
        if kind in ("specialized", "basic"):
            return rng.pick([{"ice": "antarctic"}, {"ice": "greenland"}, {"ice": "arasim"},
                             {"ice": "antarctic", "n0": 1.76, "k": 0.4, "a": 0.02}])
        if kind == "uniform":
            return {"ice": "uniform", "index": rng.pick([1.3, 1.5, 1.78]),
                    "range": [rng.pick([-800, -1500]), 0],
                    "above": rng.pick([1, 1.2]), "below": rng.pick([None, 2.0, 1.0])}
        split = rng.pick([-100, -250])
        return {"ice": "layered", "above": 1, "below": rng.pick([None, 2.5]),
                "layers": [{"ice": "uniform", "index": rng.pick([1.35, 1.5]), "range": [split, 0]},
                           {"ice": "uniform", "index": rng.pick([1.6, 1.78]), "range": [-900, split]}]}

    def setup(self, cfg):
        import pyrex
        self.pyrex = pyrex
        self.cfg = cfg
        self.tracer = None
        self.attrs = None        # model of the tracer's defining attributes (specs)
        self.path = None
        self.path_attrs = None
        self.t_reads = 0
        self.t_mut = False
        self.p_reads = 0
        self.p_mut = False

    def _tracer_cls(self):
        rt = self.pyrex.ray_tracing
        k = self.cfg["tracer"]
        if k == "specialized":
            return rt.SpecializedRayTracer
        if k == "basic":
            return rt.BasicRayTracer
        if k == "uniform":
            return rt.UniformRayTracer
        from pyrex.custom import layered_ice
        return layered_ice.LayeredRayTracer

    def _fresh_tracer(self, attrs):
        cls = self._tracer_cls()
        ice = make_ice(attrs["ice"], self.pyrex)
        if self.cfg["tracer"] in ("specialized", "basic"):
            t = cls(vec(attrs["from_point"]), vec(attrs["to_point"]), ice_model=ice, dz=attrs["dz"])
        else:
            t = cls(vec(attrs["from_point"]), vec(attrs["to_point"]), ice_model=ice)
            if "max_reflections" in attrs:
                t.max_reflections = attrs["max_reflections"]
        return t

    def draw_op(self, rng):
        kind = self.cfg["tracer"]
        if self.tracer is None:
            op = {"op": "new", "from_point": self._rand_point(rng, deep=True),
                  "to_point": self._rand_point(rng), "ice": self._rand_ice(rng, kind)}
            if kind in ("specialized", "basic"):
                op["dz"] = rng.pick([1, 2, 5]) if kind == "specialized" else rng.pick([2, 5])
            return op
        focus_path = self.path is not None and rng.chance(0.6)
        if focus_path and rng.chance(0.5):
            return {"op": "path_read"}
        if not focus_path and rng.chance(self.cfg["read_prob"]):
            if self.path is not None and rng.chance(0.5):
                return {"op": "path_read"}
            return {"op": "read"}
        choices = ["set_from", "set_to", "set_ice", "take_path"]
        if kind in ("specialized", "basic"):
            choices += ["set_dz"]
        else:
            choices += ["set_maxref", "set_maxref"]
        if self.path is not None:
            choices += ["path_set", "path_set"]
        if focus_path:
            # while a path object is held, keep reading and assigning on it
            choices = ["path_set"]
        k = rng.pick(choices)
        if k in ("set_from", "set_to") and rng.chance(0.35):
            # augmented assignment: tracer.to_point += delta (rebinds the same array object)
            return {"op": "set", "attr": "from_point" if k == "set_from" else "to_point", "aug": True,
                    "value": [float(rng.randint(-40, 40)), float(rng.randint(-40, 40)), float(rng.randint(-15, 15))]}
        if k == "set_from":
            return {"op": "set", "attr": "from_point", "value": self._rand_point(rng, deep=True)}
        if k == "set_to":
            return {"op": "set", "attr": "to_point", "value": self._rand_point(rng)}
        if k == "set_ice":
            wrong = rng.chance(0.15)
            other = {"specialized": "uniform", "basic": "uniform", "uniform": "specialized",
                     "layered": "uniform"}[kind]
            return {"op": "set", "attr": "ice", "value": self._rand_ice(rng, other if wrong else kind),
                    "invalid": wrong}
        if k == "set_dz":
            return {"op": "set", "attr": "dz", "value": rng.pick([1, 2, 3, 5, 10])}
        if k == "set_maxref":
            return {"op": "set", "attr": "max_reflections", "value": rng.pick([0, 1, 2, 3])}
        if k == "take_path":
            return {"op": "take_path", "k": rng.randrange(3)}
        attr = rng.pick(["theta0", "dz", "direct", "ice", "from_point", "to_point"])
        if attr == "theta0":
            val = rng.pick([0.99, 1.01, 0.9, 1.05])
        elif attr == "dz":
            val = rng.pick([1, 2, 5])
        elif attr == "direct":
            val = None
        elif attr == "ice":
            val = self._rand_ice(rng, kind)
        else:
            val = self._rand_point(rng, deep=(attr == "from_point"))
        return {"op": "path_set", "attr": attr, "value": val}

    # -- summaries -------------------------------------------------------
    @staticmethod
    def _path_summary(p):
        return [float(p.tof), float(p.path_length),
                [float(x) for x in p.emitted_direction],
                [float(x) for x in p.received_direction]]

    @staticmethod
    def _path_summary_att(p):
        # attenuation at one fixed pair of frequencies is a derived quantity of the path as well
        # (asked with the same argument before and after assignments)
        return C06Tracers._path_summary(p) + [float(x) for x in p.attenuation(np.array([1.5e8, 4e8]))]

    def _tracer_summary(self, t):
        ex = bool(t.exists)
        sols = t.solutions
        return [ex, len(sols)] + [self._path_summary(p) for p in sols]

    @staticmethod
    def _flat(x, out):
        if isinstance(x, (list, tuple)):
            for y in x:
                C06Tracers._flat(y, out)
        else:
            out.append(float(x))
        return out

    def _compare(self, label, getter, live, fresh_builder):
        try:
            got, got_exc = getter(live), None
        except Exception as e:
            got, got_exc = None, e
        try:
            want, want_exc = getter(fresh_builder()), None
        except Exception as e:
            want, want_exc = None, e
        if (got_exc is None) != (want_exc is None) or (
                got_exc is not None and type(got_exc) is not type(want_exc)):
            raise Violation("C06:stale-exception",
                            "%s: long-lived object -> %r, fresh object -> %r"
                            % (label, got_exc or got, want_exc or want))
        if got_exc is not None:
            self.count("probe.read_raises_on_both")
            return ["both-raise", type(got_exc).__name__]
        if got[:2] != want[:2] if label == "tracer" else False:
            raise Violation("C06:stale-solutions",
                            "tracer reports exists=%s with %d solutions, a fresh tracer with the "
                            "same attributes exists=%s with %d" % (got[0], got[1], want[0], want[1]))
        a = np.array(self._flat(got, []))
        b = np.array(self._flat(want, []))
        if len(a) != len(b) or np.any(~(np.abs(a - b) <= 1e-11 * np.abs(b) + 1e-300)
                                      & ~(np.isnan(a) & np.isnan(b))):
            raise Violation("C06:stale-%s" % label,
                            "%s quantities differ from a fresh object: got %r want %r"
                            % (label, got, want))
        return got

    # -- application -------------------------------------------------------
    def apply(self, op):
        name = op["op"]
        self.count("op." + name)
        kind = self.cfg["tracer"]
        if name == "new":
            if self.tracer is not None:
                raise Skip("tracer exists")
            attrs = {"from_point": op["from_point"], "to_point": op["to_point"], "ice": op["ice"]}
            if kind in ("specialized", "basic"):
                attrs["dz"] = op.get("dz", 1)
            st, t = self.sut(self._fresh_tracer, attrs, where="tracer()")
            self.tracer, self.attrs = t, attrs
            return ["new", kind]
        if self.tracer is None:
            raise Skip("no tracer")
        if name == "read":
            if self.t_mut:
                self.count("probe.read_assign_read")
                self.nontrivial = True
            self.t_reads += 1
            self.t_mut = False
            attrs = dict(self.attrs)
            return ["read", self._compare("tracer", self._tracer_summary, self.tracer,
                                          lambda: self._fresh_tracer(attrs))]
        if name == "set":
            attr, value = op["attr"], op["value"]
            if attr == "dz" and kind not in ("specialized", "basic"):
                raise Skip("no dz")
            if attr == "max_reflections" and kind in ("specialized", "basic"):
                raise Skip("no max_reflections")
            if attr == "ice":
                real = make_ice(value, self.pyrex)
            elif attr in ("from_point", "to_point"):
                real = vec(value)
            else:
                real = value
            if op.get("aug"):
                def aug():
                    if attr == "from_point":
                        self.tracer.from_point += real
                    else:
                        self.tracer.to_point += real
                st, _ = self.sut(aug, where="augmented assignment " + attr)
                value = [float(a + b) for a, b in zip(self.attrs[attr], value)]
                self.count("probe.augmented_assignment")
            else:
                st, _ = self.sut(setattr, self.tracer, attr, real, where="setattr " + attr)
            self.attrs[attr] = value
            if attr == "max_reflections":
                self.count("probe.max_reflections_assigned")
            if op.get("invalid"):
                self.count("fault.invalid_ice_assigned")
            if self.t_reads:
                self.t_mut = True
            return ["set", attr]
        if name == "take_path":
            if kind == "layered":
                raise Skip("layered paths are not mutated")
            # the long-lived path comes from a separate tracer object, so that
            # mutating it does not edit the long-lived tracer's own solution list
            try:
                sols = self._fresh_tracer(dict(self.attrs)).solutions
            except Exception:
                raise Skip("tracer has no solutions to take")
            if not sols:
                raise Skip("no solutions")
            p = sols[op["k"] % len(sols)]
            pa = {"from_point": list(self.attrs["from_point"]), "to_point": list(self.attrs["to_point"]),
                  "ice": self.attrs["ice"], "theta0": float(p.theta0)}
            if kind == "uniform":
                # the one defining attribute of a uniform-ice path that has no public name
                if not hasattr(p, "_reflections"):
                    raise Skip("cannot tell which image solution this path is")
                pa["reflections"] = int(p._reflections)
            else:
                pa["dz"] = self.attrs["dz"]
                pa["direct"] = bool(p.direct)
            self.path, self.path_attrs = p, pa
            self.p_reads, self.p_mut = 0, False
            return ["take_path", pa["theta0"]]
        if self.path is None:
            raise Skip("no path")
        if name == "path_read":
            if self.p_mut:
                self.count("probe.read_assign_read")
                self.nontrivial = True
            self.p_reads += 1
            self.p_mut = False
            pa = dict(self.path_attrs)
            return ["path_read", self._compare("path", self._path_summary_att, self.path,
                                               lambda: self._fresh_path(pa))]
        if name == "path_set":
            attr, value = op["attr"], op["value"]
            pa = self.path_attrs
            if attr in ("dz", "direct") and kind == "uniform":
                raise Skip("uniform paths have no dz/direct to assign")
            if attr == "theta0":
                new = pa["theta0"] * value
                real = new
            elif attr == "direct":
                new = not pa["direct"]
                real = new
            elif attr == "ice":
                new = value
                real = make_ice(value, self.pyrex)
            elif attr in ("from_point", "to_point"):
                new = value
                real = vec(value)
            else:
                new = value
                real = value
            st, _ = self.sut(setattr, self.path, attr, real, where="path setattr " + attr)
            pa[attr] = new
            if self.p_reads:
                self.p_mut = True
            return ["path_set", attr]
        raise AssertionError(name)

    def _fresh_path(self, pa):
        kind = self.cfg["tracer"]
        attrs = {"from_point": pa["from_point"], "to_point": pa["to_point"], "ice": pa["ice"]}
        if kind != "uniform":
            attrs["dz"] = pa["dz"]
        parent = self._fresh_tracer(attrs)
        cls = parent.solution_class
        if kind == "uniform":
            return cls(parent, pa["theta0"], pa["reflections"])
        return cls(parent, pa["theta0"], pa["direct"])

    def finish(self):
        out = []
        if self.tracer is not None:
            attrs = dict(self.attrs)
            out.append(self._compare("tracer", self._tracer_summary, self.tracer,
                                     lambda: self._fresh_tracer(attrs)))
        if self.path is not None:
            pa = dict(self.path_attrs)
            out.append(self._compare("path", self._path_summary, self.path,
                                     lambda: self._fresh_path(pa)))
        return out


MACHINES = [C06Signals, C06Tracers]
