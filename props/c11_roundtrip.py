"""C11 - HDF5 write-read round trip returns each event's own data for every
configuration, and rejected add() calls disturb nothing.

The file lives on the simulated disk.  A history is a sequence of add() calls
(ragged particle / ray / waveform counts, bool and dict triggers), rejected
adds of two kinds - (i) argument rejections the writer itself raises and (ii)
"the k-th access pyrex makes into a caller-supplied object during this add
raises" through counting proxies - optional checkpoints (close, read back,
reopen in append mode with a fresh writer = restart, only the disk survives)
and a final read-back through a fresh reader compared field by field with
records captured at the moment of each accepted add.

``extra_tier`` (thorough): for sampled histories one add is chosen, a dry run
counts the K collaborator accesses of that add, and the history is re-executed
once per k = 1..K, i.e. every point inside that add at which control leaves
pyrex is a tried failure point.
"""
import numpy as np

from sim.engine import Machine, Violation, Skip
from sim import seams, engine
from props import io_common
from props.io_common import World, TRIG_KEYS

ARG_FAULTS = ["no_rays", "no_trigger", "no_global", "bad_trigger_type", "rays_short",
              "pols_short", "pols_mismatch", "trigger_list_short"]


def draw_options(rng):
    opts = {"particles": True, "triggers": rng.chance(0.8), "rays": rng.chance(0.6),
            "noise": rng.chance(0.35), "waveforms": rng.chance(0.5)}
    opts["antenna_triggers"] = opts["triggers"] and rng.chance(0.5)
    mode = rng.pick(["true", "false", "list", "list"])
    if mode == "true":
        req = True
    elif mode == "false":
        req = False
    else:
        req = [k for k in TRIG_KEYS if rng.chance(0.4)]
    return opts, req


def trig_only_of(opts, req):
    if isinstance(req, bool):
        t = {k: req for k in opts}
        if req:
            for k in ("particles", "triggers", "antenna_triggers"):
                t[k] = False
    else:
        t = {k: False for k in opts}
        for k in req:
            t[k] = True
    return t


class C11RoundTrip(Machine):
    prop_id = "C11"
    name = "roundtrip"
    level = "fault_enumeration"
    budget = {"quick": 1400, "thorough": 50000}
    max_steps = 10
    rule = ("seeded histories (<=8 adds) over the legal settings of the six write_* options x require_trigger "
            "(bool or any sub-list) x detector size 1-4 x noisy/noiseless antennas, ragged rows per event, "
            "bool/dict/per-waveform triggers, with rejected adds (argument rejections; k-th collaborator "
            "access raises) and close/reopen checkpoints; thorough tier additionally enumerates every "
            "collaborator access k=1..K of a chosen add; non-trivial = the history contains a rejected add "
            "or a checkpoint restart, or ragged rows; distinct = history digest")
    components = {"real": ["HDF5Writer", "HDF5Reader", "EventIterator", "Event/Particle", "Antenna + waveforms",
                           "SpecializedRayTracer paths", "h5py on in-memory SimDisk"],
                  "stub": ["counting proxies around events / antennas / ray paths (delegate to the real objects)"]}
    assumptions = ["nothing is demanded about orphan rows or total_thrown after a rejected add, nor about files "
                   "never closed", "component triggers are stored per waveform row: compared only when rows exist",
                   "byte-level faults inside libhdf5 are not injected (no property speaks about them)"]
    required_counters = ("seam.file_opens", "fault.arg_rejected", "fault.collab_fired", "op.checkpoint", "probe.readback_events")

    # ------------------------------------------------------------------
    def draw_config(self, rng):
        opts, req = draw_options(rng)
        return {"n_steps": rng.pick([2, 3, 4, 6, 8]), "n_ant": rng.randint(1, 4), "opts": opts,
                "require_trigger": req, "noisy": rng.pick([True, False, "mixed"]),
                "fault_rate": rng.pick([0.0, 0.15, 0.3]), "checkpoint_rate": rng.pick([0.0, 0.1, 0.25]),
                "dict_triggers": rng.chance(0.6), "mode": rng.pick(["w", "x", "a"])}

    def setup(self, cfg):
        import pyrex
        self.pyrex = pyrex
        self.cfg = cfg
        self.disk = seams.SimDisk()
        seams.set_disk(self.disk)
        self.clock = seams.SimClock()
        seams.set_clock(self.clock)
        self.world = World(pyrex, cfg["n_ant"], cfg["noisy"])
        self.opts = cfg["opts"]
        self.trig_only = trig_only_of(self.opts, cfg["require_trigger"])
        self.name_ = "sim://c11.h5"
        self.records = []
        self.next_tag = 0
        self.writer = None
        self.sessions = 0
        self.dry_counts = {}      # used by the enumeration tier
        self._open(cfg.get("mode", "w"))

    def _open(self, mode):
        P = self.pyrex
        o = self.opts
        self.clock.advance(3600.0 * (self.sessions + 1))
        w = P.io.HDF5Writer(self.name_, mode=mode, write_particles=True,
                            write_triggers=o["triggers"], write_antenna_triggers=o["antenna_triggers"],
                            write_rays=o["rays"], write_noise=o["noise"], write_waveforms=o["waveforms"],
                            require_trigger=self.cfg["require_trigger"])
        st, _ = self.sut(w.open, where="writer.open")
        st, _ = self.sut(w.set_detector, self.world.detector, where="set_detector")
        self.writer = w
        self.sessions += 1

    # ------------------------------------------------------------------
    def _draw_event_spec(self, rng):
        n_ant = self.cfg["n_ant"]
        rays = [rng.pick([0, 1, 1, 2, 3]) for _ in range(n_ant)]
        glob = rng.chance(0.6)
        if self.cfg["dict_triggers"] and rng.chance(0.8):
            extra = {}
            mw = max(rays)
            for k in rng.pick([["a"], ["a", "b"], ["b"], []]):
                extra[k] = rng.chance(0.5) if rng.chance(0.5) else [rng.chance(0.5) for _ in range(mw)]
            # per-waveform verdicts may come as any indexable sequence of bools
            trig = {"type": "dict", "global": glob, "extra": extra,
                    "seq_as": rng.pick(["list", "list", "tuple", "ndarray"])}
        else:
            trig = {"type": "bool", "global": glob}
        return {"tag": self.next_tag, "np": rng.randint(1, 4), "rays": rays, "trig": trig,
                "share_paths": rng.chance(0.2),
                "thrown": rng.randint(1, 5), "tree": rng.pick(["roots", "chain"]),
                "reset_noise": rng.chance(0.3)}

    def draw_op(self, rng):
        cfg = self.cfg
        if self.records and rng.chance(cfg["checkpoint_rate"]):
            return {"op": "checkpoint", "mode": rng.pick(["a", "r+"])}
        spec = self._draw_event_spec(rng)
        self.next_tag += 1
        op = {"op": "add", "spec": spec}
        if rng.chance(cfg["fault_rate"]):
            if rng.chance(0.5):
                op["fault"] = {"kind": "arg", "how": rng.pick(ARG_FAULTS)}
            else:
                op["fault"] = {"kind": "collab", "k": rng.randint(1, 30)}
        return op

    # ------------------------------------------------------------------
    def apply(self, op):
        name = op["op"]
        self.count("op." + name)
        if name == "add":
            return self._op_add(op)
        return self._op_checkpoint(op)

    def _op_add(self, op):
        spec = op["spec"]
        world = self.world
        fault = op.get("fault")
        event = world.make_event(spec)
        world.load_antennas(spec, reset_noise=spec.get("reset_noise", False))
        if self.cfg["noisy"]:
            for a in world.antennas:   # make sure noise masters exist like in a simulation
                if a.noisy:
                    a.all_waveforms
        paths, pols = world.ray_args(spec)
        trig = world.trigger_arg(spec)
        # does this writer configuration ever look at the trigger argument?
        consulted = self.opts["triggers"] or any(self.opts[k] and self.trig_only[k]
                                                 for k in self.opts if k != "antenna_triggers")
        needs_none_check = any(self.trig_only.values()) or consulted
        kwargs = {"event": event, "triggered": trig, "ray_paths": paths, "polarizations": pols,
                  "events_thrown": spec["thrown"]}
        expect_reject = None
        if fault and fault["kind"] == "arg":
            how = fault["how"]
            if how == "no_rays" and self.opts["rays"]:
                kwargs["ray_paths"] = None
                expect_reject = (ValueError,)
            elif how == "no_trigger" and needs_none_check:
                kwargs["triggered"] = None
                expect_reject = (ValueError, TypeError)
            elif how == "no_global" and consulted:
                kwargs["triggered"] = {"a": True}
                expect_reject = (ValueError,)
            elif how == "bad_trigger_type" and consulted:
                kwargs["triggered"] = "yes"
                expect_reject = (TypeError,)
            elif how in ("rays_short", "pols_short", "pols_mismatch") and self._rays_written(spec):
                if how == "rays_short":
                    kwargs["ray_paths"] = paths[:-1]
                elif how == "pols_short":
                    kwargs["polarizations"] = pols[:-1]
                else:
                    kwargs["polarizations"] = [q + [q[0] if q else io_common.unit((1, 0, 0))]
                                               for q in pols]
                expect_reject = (ValueError,)
            elif how == "trigger_list_short" and self.opts["triggers"] and \
                    self._triggers_written(spec) and max(spec["rays"]) >= 1:
                kwargs["triggered"] = {"global": bool(spec["trig"]["global"]), "a": []}
                expect_reject = (IndexError,)
            else:
                fault = None      # this rejection does not apply to the option set
        if fault and fault["kind"] == "collab":
            plan = world.plan
            kwargs["event"] = seams.Proxy(event, plan, "event")
            kwargs["ray_paths"] = [[seams.Proxy(p, plan, "path%d_%d" % (i, j)) for j, p in enumerate(pi)]
                                   for i, pi in enumerate(paths)]
            plan.arm(fault["k"])
            try:
                st, res = self.sut(self.writer.add, expect=(seams.InjectedFault,), where="add",
                                   **kwargs)
            finally:
                plan.disarm()
            self.dry_counts[spec["tag"]] = plan.count
            if st == "raised":
                self.count("fault.collab_fired")
                self.nontrivial = True
                return ["add", "rejected-collab", plan.fired_at]
            # k larger than the number of accesses: an ordinary accepted add
        elif expect_reject is not None:
            st, res = self.sut(self.writer.add, expect=expect_reject, where="add", **kwargs)
            self.count("fault.arg_rejected")
            self.nontrivial = True
            if st != "raised":
                raise Violation("C11:bad-add-accepted",
                                "add() with fault %r was accepted" % (fault["how"],))
            return ["add", "rejected-arg", fault["how"]]
        else:
            plan = world.plan
            plan.arm(None)    # count only (dry run for the enumeration tier)
            try:
                st, res = self.sut(self.writer.add, where="add", **kwargs)
            finally:
                plan.disarm()
            self.dry_counts[spec["tag"]] = plan.count
        rec = world.record(spec, event, paths, pols, self.opts, self.trig_only)
        self.records.append(rec)
        if len(set(spec["rays"])) > 1:
            self.nontrivial = True
        return ["add", "accepted", spec["tag"]]

    def _on(self, key, spec):
        glob = bool(spec["trig"]["global"])
        return self.opts[key] and (not self.trig_only[key] or glob)

    def _rays_written(self, spec):
        return self._on("rays", spec)

    def _triggers_written(self, spec):
        return self._on("triggers", spec)

    # ------------------------------------------------------------------
    def _readback(self, where):
        P = self.pyrex
        n = len(self.records)
        self._check_index_table(where)
        reader = P.io.HDF5Reader(self.name_)
        st, _ = self.sut(reader.open, where="reader.open")
        try:
            st, ln = self.sut(len, reader, where="len(reader)")
            if ln != n:
                raise Violation("C11:event-count",
                                "%s: file reports %d events, %d adds were accepted" % (where, ln, n))
            if n == 0 or not any(r["particles"] is not None for r in self.records):
                return 0
            st, got = self.sut(lambda: [io_common.read_event(ev, self.cfg["n_ant"]) for ev in reader],
                               where="iterate")
            if len(got) != n:
                raise Violation("C11:event-count", "%s: iteration yields %d events, %d accepted"
                                % (where, len(got), n))
            for rec, g in zip(self.records, got):
                io_common.compare(rec, g, where, self.cfg["n_ant"])
                self.count("probe.readback_events")
        finally:
            reader.close()
        return n

    def _check_index_table(self, where):
        """The stored index table, read straight from the simulated disk (the writer is closed)."""
        f = seams.SimFile(self.name_, "r")
        try:
            if "/event_indices" not in f:
                return
            idx = f["/event_indices"]
            keys = [k if isinstance(k, str) else k.decode() for k in idx.attrs["keys"]]
            data = idx[...]
            for col, key in enumerate(keys):
                if key not in f:
                    continue
                obj = f[key]
                rows = obj["float"].shape[0] if hasattr(obj, "keys") else obj.shape[0]
                for ev in range(data.shape[0]):
                    start, length = int(data[ev, col, 0]), int(data[ev, col, 1])
                    if not (0 <= start and 0 <= length and start + length <= rows):
                        raise Violation("C11:index-out-of-range",
                                        "%s: event %d addresses rows [%d,%d) of %s which has %d rows"
                                        % (where, ev, start, start + length, key, rows))
        finally:
            f.close()

    def _op_checkpoint(self, op):
        st, _ = self.sut(self.writer.close, where="writer.close")
        n = self._readback("checkpoint after %d accepted adds" % len(self.records))
        # restart: new world objects would lose nothing that matters; keep the
        # detector, drop the writer, only the simulated disk carries the file
        self._open(op["mode"])
        self.nontrivial = True
        return ["checkpoint", n]

    def finish(self):
        self.count("sim.clock_span_s", int(self.clock.max_t - self.clock.min_t))
        self.count("seam.file_opens", sum(self.disk.opens.values()))
        st, _ = self.sut(self.writer.close, where="writer.close")
        return ["final", self._readback("final read-back")]

    # ------------------------------------------------------------------
    def simplify_op(self, op):
        if op.get("op") == "add":
            spec = op["spec"]
            if spec["np"] > 1:
                yield dict(op, spec=dict(spec, np=1))
            if any(r > 1 for r in spec["rays"]):
                yield dict(op, spec=dict(spec, rays=[min(r, 1) for r in spec["rays"]]))
            if spec["trig"]["type"] == "dict" and spec["trig"].get("extra"):
                yield dict(op, spec=dict(spec, trig=dict(spec["trig"], extra={})))

    def simplify_config(self, cfg):
        if cfg["noisy"]:
            yield dict(cfg, noisy=False)
        o = cfg["opts"]
        for k in ("noise", "waveforms", "rays"):
            if o[k]:
                yield dict(cfg, opts=dict(o, **{k: False}))

    # ------------------------------------------------------------------
    # thorough tier: exhaustive enumeration of the failure points of one add
    # ------------------------------------------------------------------
    @classmethod
    def extra_tier(cls, tier, verif_seed, workers, scale):
        n_hist = int((40 if tier == "quick" else 2000) * scale)
        if n_hist <= 0:
            return None
        import concurrent.futures
        import multiprocessing
        ctx = multiprocessing.get_context("fork")
        idxs = list(range(1_000_000, 1_000_000 + n_hist))
        chunks = [idxs[i::max(1, workers)] for i in range(max(1, workers))]
        total = {"histories": 0, "fault_points": 0, "fired": 0, "violations": [], "errors": []}
        with concurrent.futures.ProcessPoolExecutor(max_workers=workers, mp_context=ctx) as ex:
            for res in ex.map(_enumerate_chunk, [(verif_seed, c) for c in chunks if c]):
                for k in ("histories", "fault_points", "fired"):
                    total[k] += res[k]
                total["violations"].extend(res["violations"])
                total["errors"].extend(res["errors"])
        total["name"] = "collaborator-fault enumeration"
        total["exhaustive_within_history"] = True
        return total


def _enumerate_chunk(args):
    verif_seed, idxs = args
    out = {"histories": 0, "fault_points": 0, "fired": 0, "violations": [], "errors": []}
    for idx in idxs:
        rec = engine.new_record(C11RoundTrip, verif_seed, idx)
        try:
            base = engine.execute(C11RoundTrip, rec, generate=True)
        except Exception as e:
            out["errors"].append("enumeration base run %d: %r" % (idx, e))
            continue
        # fault-free variant of the history, choose the add deterministically
        ops = [dict(o) for o in rec["ops"]]
        for o in ops:
            o.pop("fault", None)
        adds = [i for i, o in enumerate(ops) if o["op"] == "add"]
        if not adds:
            continue
        target = adds[rec["run_seed"] % len(adds)]
        dry = dict(rec, ops=[dict(o) for o in ops])
        dry["ops"][target]["fault"] = {"kind": "collab", "k": 10 ** 6}
        m_counts = {}
        res = _execute_capture(dry, m_counts)
        if res["violation"] is not None:
            out["violations"].append(dict(dry, violation=res["violation"]))
            continue
        K = m_counts.get(ops[target]["spec"]["tag"], 0)
        out["histories"] += 1
        for k in range(1, K + 1):
            cand = dict(rec, ops=[dict(o) for o in ops])
            cand["ops"][target]["fault"] = {"kind": "collab", "k": k}
            r = engine.execute(C11RoundTrip, cand, generate=False)
            out["fault_points"] += 1
            out["fired"] += r["stats"].get("fault.collab_fired", 0)
            if r["violation"] is not None:
                out["violations"].append(dict(cand, violation=r["violation"]))
                break
    return out


def _execute_capture(record, counts_out):
    """Execute and capture the per-add access counts of the machine instance."""
    orig_init = C11RoundTrip.setup

    def setup(self, cfg):
        orig_init(self, cfg)
        self.dry_counts = counts_out
    C11RoundTrip.setup = setup
    try:
        return engine.execute(C11RoundTrip, record, generate=False)
    finally:
        C11RoundTrip.setup = orig_init


MACHINES = [C11RoundTrip]
