"""C10 - the event kernel delivers one time-aligned signal per ray solution,
for every shipped component combination.

The kernel is the package's "whole system": generator -> ray tracer -> signal
model -> antenna -> writer, all injected through constructor arguments.  The
simulation runs that whole chain with real components, records every
cross-component call (spy antennas, spy signal model, spy writer around the
real HDF5Writer on the simulated disk) and checks the recorded history
against ray solutions from an independently constructed tracer.  Faults: the
signal model raising ValueError, generator exhaustion, the writer rejecting
an add, shadowed geometries.
"""
import sys

import numpy as np

from sim.engine import Machine, Violation, Skip
from sim import seams
from props.c06_lazy import make_ice

SIGNAL_MODELS = ["ARZAskaryanSignal", "AVZAskaryanSignal", "ZHSAskaryanSignal"]


def ulp_equal(a, b, n=4):
    a = np.asarray(a, dtype=float)
    b = np.asarray(b, dtype=float)
    if a.shape != b.shape:
        return False
    return bool(np.all(np.abs(a - b) <= n * np.spacing(np.maximum(np.abs(a), np.abs(b)))))


class InjectedValueError(ValueError):
    """A collaborator (antenna) refusing a delivery with a ValueError."""


class C10Kernel(Machine):
    prop_id = "C10"
    name = "kernel"
    level = "exploration"
    budget = {"quick": 2000, "thorough": 120000}
    max_steps = 6
    rule = ("seeded runs: a component combination (tracer in {specialized, basic, uniform with 0-2 "
            "reflections, layered over uniform or exponential layers} x matching ice x {ARZ, AVZ, ZHS} x "
            "generator in {list with hand-placed multi-particle events, cylindrical, rectangular, file on "
            "the simulated disk} x writer in {none, recording, real HDF5Writer} x trigger in {none, "
            "function, dict} x offcone_max / weight_min / attenuation_interpolation settings) runs 1-4 "
            "kernel.event() calls with clears and injected faults; the first runs are stratified over "
            "tracer x signal model x generator kind; non-trivial = an event delivered at least one signal "
            "or a fault fired; distinct = history digest")
    components = {"real": ["EventKernel", "Specialized/Basic/Uniform/LayeredRayTracer + paths",
                           "Antarctic/Uniform/LayeredIce", "ARZ/AVZ/ZHS AskaryanSignal",
                           "ListGenerator/CylindricalGenerator/RectangularGenerator/FileGenerator",
                           "Antenna (spy subclass delegating to the real receive)",
                           "HDF5Writer on SimDisk (spy subclass delegating to the real add)"],
                  "stub": ["recording writer stand-in (one of three writer choices)",
                           "constant-slant-depth earth model for the random generators (cost)"]}
    assumptions = ["signal values are not judged (C03/C07/C08), tracer correctness is not judged (C01/C02)",
                   "events_thrown is compared with the generator count delta since the last successful add"]
    required_counters = ("probe.signals_delivered", "fault.signal_model_raised", "fault.generator_exhausted",
                         "fault.antenna_rejected",
                         "fault.writer_rejected", "probe.no_solution", "probe.offcone_empty",
                         "probe.weight_cut", "probe.real_writer_readback")

    TRACERS = ["specialized", "basic", "uniform0", "uniform2", "layered_uniform", "layered_exp"]
    GENERATORS = ["list", "list", "cylindrical", "rectangular", "file"]

    # ------------------------------------------------------------------
    def draw_config(self, rng):
        # stratify: run_index is not visible here, so derive the stratum from the stream
        combo = rng.randrange(len(self.TRACERS) * len(SIGNAL_MODELS) * len(self.GENERATORS))
        tracer = self.TRACERS[combo % len(self.TRACERS)]
        if tracer in ("basic", "layered_exp") and rng.chance(0.6):
            tracer = rng.pick(["specialized", "uniform2", "layered_uniform"])   # expensive ones rarer
        model = SIGNAL_MODELS[(combo // len(self.TRACERS)) % len(SIGNAL_MODELS)]
        gen = self.GENERATORS[(combo // (len(self.TRACERS) * len(SIGNAL_MODELS))) % len(self.GENERATORS)]
        n_ant = rng.randint(1, 3)
        ants = [[float(rng.randint(-60, 60)), float(rng.randint(-60, 60)), float(-rng.randint(40, 250))]
                for _ in range(n_ant)]
        events = []
        burst = rng.chance(0.15)
        for e in range(rng.randint(1, 4)):
            parts = []
            for k in range(rng.randint(6, 9) if (burst and e == 0) else rng.randint(1, 3)):
                far = rng.chance(0.12)
                parts.append({
                    "id": rng.pick(["nu_e", "nu_mu", "nu_tau_bar", "nu_e_bar"]),
                    "vertex": [float(rng.randint(-400, 400)) * (12 if far else 1),
                               float(rng.randint(-400, 400)),
                               float(-rng.randint(30, 900)) if not far else float(-rng.randint(30, 120))],
                    "direction": [rng.uniform(-1, 1), rng.uniform(-1, 1), rng.uniform(-1, 0.3)],
                    "energy": rng.pick([1e8, 1e9, 1e10]),
                    "kind": rng.pick(["cc", "nc"]),
                    "sw": rng.pick([1.0, 0.5, 1e-3, None, 0.0]),
                    "iw": rng.pick([1.0, 1e-2, 1e-6, None, 0.0])})
                if k > 0 and rng.chance(0.3):
                    # secondary particles are produced at their parent's vertex
                    parts[-1]["vertex"] = list(parts[0]["vertex"])
            events.append(parts)
        return {"n_steps": rng.randint(1, 5), "tracer": tracer, "model": model, "generator": gen,
                "antennas": ants, "events": events, "loop": rng.chance(0.5),
                "writer": rng.pick(["none", "recording", "real", "real"]),
                "triggers": rng.pick(["none", "func", "dict"]),
                "dict_global": rng.pick(["any", "all", "never"]),
                "int_vertices": rng.chance(0.25),
                "offcone_max": rng.pick([None, 40, 40, 10, 1.5]),
                "weight_min": rng.pick([None, None, 1e-2, [1e-2, 1e-4], [0.0, 1e-5]]),
                "att_interp": rng.pick([None, 0.1, 0.5]),
                "n_samples": rng.pick([16, 32, 64]), "noisy": rng.chance(0.3),
                "gen_energy": rng.pick([1e8, 1e9]), "shadow": rng.chance(0.5)}

    # ------------------------------------------------------------------
    def _ice_spec(self, tracer):
        if tracer in ("specialized", "basic"):
            return {"ice": "antarctic"}
        if tracer.startswith("uniform"):
            return {"ice": "uniform", "index": 1.6, "range": [-2850, 0], "above": 1, "below": 2.2}
        if tracer == "layered_uniform":
            return {"ice": "layered", "above": 1, "below": None, "layers": [
                {"ice": "uniform", "index": 1.4, "range": [-150, 0]},
                {"ice": "uniform", "index": 1.75, "range": [-2850, -150]}]}
        return None

    def setup(self, cfg):
        import pyrex
        from pyrex.custom import layered_ice
        P = self.pyrex = pyrex
        self.cfg = cfg
        rt = P.ray_tracing
        tr = cfg["tracer"]
        if tr == "specialized":
            self.tracer_cls = rt.SpecializedRayTracer
        elif tr == "basic":
            class CoarseBasic(rt.BasicRayTracer):
                def __init__(self, from_point, to_point, ice_model=P.ice_model.ice, dz=5):
                    super().__init__(from_point, to_point, ice_model=ice_model, dz=dz)
            self.tracer_cls = CoarseBasic
        elif tr == "uniform0":
            self.tracer_cls = rt.UniformRayTracer
        elif tr == "uniform2":
            class Uniform2(rt.UniformRayTracer):
                max_reflections = 2
            self.tracer_cls = Uniform2
        else:
            self.tracer_cls = layered_ice.LayeredRayTracer
        spec = self._ice_spec(tr)
        if spec is None:
            im = P.ice_model
            self.ice = layered_ice.LayeredIce([im.AntarcticIce(valid_range=(-200, 0)),
                                               im.AntarcticIce(valid_range=(-2850, -200))])
        else:
            self.ice = make_ice(spec, P)
        dt = 1e-9
        self.signal_times = np.linspace(-cfg["n_samples"] / 2 * dt, cfg["n_samples"] / 2 * dt,
                                        cfg["n_samples"], endpoint=False)
        machine = self
        self.receive_log = []      # (antenna index, times copy, n_signals, zero?, direction, polarization)
        self.model_log = []        # kwargs of every signal-model call
        self.writer_log = []       # kwargs of every writer.add call
        self.model_fault_at = None
        self.writer_fault = False
        self.antenna_fault_at = None
        self.antenna_fault_fired = None
        self.first_receive_calls = {}
        self.max_receive_ratio = 0.0

        class SpyAntenna(P.Antenna):
            def receive(self, signal, direction=None, polarization=None, force_real=False):
                sigs = list(signal) if hasattr(signal, "__len__") else [signal]
                if machine.antenna_fault_at is not None:
                    machine.antenna_fault_at -= 1
                    if machine.antenna_fault_at <= 0:
                        machine.antenna_fault_at = None
                        machine.antenna_fault_fired = (self._spy_index, len(machine.receive_log))
                        machine.receive_log.append({"ant": self._spy_index, "rejected": True})
                        raise InjectedValueError("injected: antenna refuses this delivery")
                machine.receive_log.append({
                    "ant": self._spy_index, "times": [np.array(s.times, dtype=float) for s in sigs],
                    "zero": all(not np.any(np.asarray(s.values)) for s in sigs),
                    "n": len(sigs), "direction": None if direction is None else np.array(direction, dtype=float),
                    "polarization": polarization, "empty_cls": isinstance(sigs[0], P.EmptySignal)})
                # bounded progress: the work (python-level calls, a deterministic
                # measure) of one delivery must not grow with the number of signals
                # the antenna already holds
                calls = [0]

                def prof(frame, event, arg):
                    if event == "call" or event == "c_call":
                        calls[0] += 1
                        if calls[0] > 400 * machine.first_receive_calls.get(len(sigs), 10 ** 9):
                            sys.setprofile(None)
                            raise Violation("C10:delivery-cost-explodes",
                                            "delivery number %d to an antenna needs more than 400x the work "
                                            "of the first delivery (%d python calls)"
                                            % (len(self.signals) + 1,
                                               machine.first_receive_calls[len(sigs)]))
                sys.setprofile(prof)
                try:
                    out = super().receive(signal, direction=direction, polarization=polarization,
                                          force_real=force_real)
                finally:
                    sys.setprofile(None)
                machine.first_receive_calls.setdefault(len(sigs), max(calls[0], 200))
                machine.max_receive_ratio = max(machine.max_receive_ratio,
                                                calls[0] / machine.first_receive_calls[len(sigs)])
                return out

            def trigger(self, signal):
                return bool(np.max(np.abs(signal.values)) > 1e-12)

        self.antennas = []
        for i, pos in enumerate(cfg["antennas"]):
            a = SpyAntenna(position=tuple(pos), noisy=cfg["noisy"], freq_range=(1e8, 4e8),
                           noise_rms=1e-9, unique_noise_waveforms=2)
            a._spy_index = i
            self.antennas.append(a)

        real_model = getattr(P.askaryan, cfg["model"])

        def spy_model(times, particle, viewing_angle, viewing_distance, ice_model):
            machine.model_log.append({"particle": particle, "viewing_angle": float(viewing_angle),
                                      "viewing_distance": float(viewing_distance), "ice": ice_model,
                                      "times": np.array(times, dtype=float)})
            if machine.model_fault_at is not None:
                machine.model_fault_at -= 1
                if machine.model_fault_at <= 0:
                    machine.model_fault_at = None
                    machine.count("fault.signal_model_raised")
                    machine.model_log[-1]["raised"] = True
                    raise ValueError("injected: signal model cannot produce a pulse")
            return real_model(times=times, particle=particle, viewing_angle=viewing_angle,
                              viewing_distance=viewing_distance, ice_model=ice_model)
        self.spy_model = spy_model

        self.disk = seams.SimDisk()
        seams.set_disk(self.disk)
        seams.set_clock(seams.SimClock())
        self.list_events = None
        self.gen = self._make_generator()
        self.last_event = None
        self.exhausted_seen = False
        orig_create = self.gen.create_event

        def recording_create():
            ev = orig_create()
            machine.last_event = ev
            return ev
        self.gen.create_event = recording_create
        self.writer = self._make_writer()
        trig = cfg["triggers"]
        if trig == "func":
            self.trigger_funcs = lambda det: any(a.is_hit for a in det)
        elif trig == "dict":
            # component verdicts that the global one does not imply (coincidence / vetoed global)
            glob = {"any": lambda det: any(a.is_hit for a in det),
                    "all": lambda det: all(a.is_hit for a in det),
                    "never": lambda det: False}[cfg.get("dict_global", "any")]
            self.trigger_funcs = {"global": glob,
                                  "first": lambda det: bool(det[0].is_hit),
                                  "last": lambda det: bool(det[len(det) - 1].is_hit),
                                  "always": lambda det: True}
        else:
            self.trigger_funcs = None
        wm = cfg["weight_min"]
        st, self.kernel = self.sut(
            P.EventKernel, generator=self.gen, antennas=self.antennas, ice_model=self.ice,
            ray_tracer=self.tracer_cls, signal_model=spy_model, signal_times=self.signal_times,
            event_writer=self.writer, triggers=self.trigger_funcs, offcone_max=cfg["offcone_max"],
            weight_min=tuple(wm) if isinstance(wm, list) else wm,
            attenuation_interpolation=cfg["att_interp"], where="EventKernel()")
        self.gen_count_at_last_add = self.gen.count
        self.accepted_adds = 0
        self.events_drawn = 0

    # -- components ----------------------------------------------------------
    def _particle(self, spec):
        P = self.pyrex
        vertex = tuple(spec["vertex"])
        if self.cfg.get("int_vertices"):
            # the same (whole-number) coordinates spelled as Python ints
            vertex = tuple(int(x) for x in vertex)
        p = P.Particle(spec["id"], vertex=vertex, direction=tuple(spec["direction"]),
                       energy=spec["energy"], interaction_type=spec["kind"])
        p.survival_weight = spec["sw"]
        p.interaction_weight = spec["iw"]
        return p

    def _make_generator(self):
        P = self.pyrex
        cfg = self.cfg
        kind = cfg["generator"]

        class FlatEarth:
            def slant_depth(self, endpoint, direction, step=500):
                return 1e7 if direction[2] > 0 else 1e9
        if kind == "list":
            self.list_events = []
            for parts in cfg["events"]:
                ps = [self._particle(s) for s in parts]
                ev = P.Event(ps[0])
                if len(ps) > 1:
                    ev.add_children(ps[0], ps[1:])
                self.list_events.append(ev)
            return P.ListGenerator(self.list_events, loop=cfg["loop"])
        if kind == "cylindrical":
            return P.CylindricalGenerator(dr=600, dz=900, energy=cfg["gen_energy"], earth_model=FlatEarth(),
                                          shadow=cfg.get("shadow", False))
        if kind == "rectangular":
            return P.RectangularGenerator(dx=800, dy=800, dz=900, energy=cfg["gen_energy"],
                                          earth_model=FlatEarth(), shadow=cfg.get("shadow", False))
        # file generator over a file written earlier in this run (restart: only the disk survives)
        name = "sim://c10_events.h5"
        w = P.io.HDF5Writer(name, mode="w", write_particles=True, write_triggers=False, write_rays=False,
                            write_noise=False, write_waveforms=False, require_trigger=False)
        w.open()
        for parts in cfg["events"]:
            ps = [self._particle(s) for s in parts]
            w.add(P.Event(ps))
        w.close()
        return P.FileGenerator(name, slice_range=2)

    def _make_writer(self):
        P = self.pyrex
        kind = self.cfg["writer"]
        machine = self
        if kind == "none":
            return None
        if kind == "recording":
            class RecordingWriter:
                is_open = True
                has_detector = True

                def create_analysis_metadataset(self, *a, **k):
                    pass

                def add_analysis_metadata(self, *a, **k):
                    pass

                def add(self, event, triggered=None, ray_paths=None, polarizations=None, events_thrown=1):
                    machine.writer_log.append({"event": event, "triggered": triggered, "ray_paths": ray_paths,
                                               "polarizations": polarizations, "events_thrown": events_thrown})
                    if machine.writer_fault:
                        machine.writer_fault = False
                        raise seams.InjectedFault("writer rejected the event")
            return RecordingWriter()

        class SpyWriter(P.io.HDF5Writer):
            def add(self, event, triggered=None, ray_paths=None, polarizations=None, events_thrown=1):
                machine.writer_log.append({"event": event, "triggered": triggered, "ray_paths": ray_paths,
                                           "polarizations": polarizations, "events_thrown": events_thrown})
                if machine.writer_fault:
                    machine.writer_fault = False
                    raise seams.InjectedFault("writer rejected the event")
                return super().add(event, triggered=triggered, ray_paths=ray_paths,
                                   polarizations=polarizations, events_thrown=events_thrown)
        w = SpyWriter("sim://c10_out.h5", mode="w", write_particles=True,
                      write_triggers=self.cfg["triggers"] != "none", write_rays=True,
                      write_waveforms=self.cfg["n_samples"] <= 32, require_trigger=False)
        return w

    # ------------------------------------------------------------------
    MAX_SIGNALS = 40

    def draw_op(self, rng):
        # keep the per-antenna state (and the cost of full_waveform) bounded
        if max(len(a.signals) for a in self.antennas) > self.MAX_SIGNALS:
            return {"op": "clear", "reset_noise": False}
        k = rng.weighted([("event", 4.0), ("clear", 1.0), ("arm_model_fault", 0.7),
                          ("arm_antenna_fault", 0.5),
                          ("arm_writer_fault", 0.5 if self.cfg["writer"] != "none" else 0.0)])
        if k == "arm_antenna_fault":
            return {"op": "arm_antenna_fault", "nth": rng.randint(1, 5)}
        if k == "event":
            return {"op": "event"}
        if k == "clear":
            return {"op": "clear", "reset_noise": rng.chance(0.3)}
        if k == "arm_model_fault":
            return {"op": "arm_model_fault", "nth": rng.randint(1, 4)}
        return {"op": "arm_writer_fault"}

    def apply(self, op):
        name = op["op"]
        self.count("op." + name)
        if name == "clear":
            for a in self.antennas:
                a.clear(reset_noise=op["reset_noise"])
            return ["clear"]
        if name == "arm_model_fault":
            self.model_fault_at = op["nth"]
            return ["armed", op["nth"]]
        if name == "arm_antenna_fault":
            self.antenna_fault_at = op["nth"]
            return ["armed-antenna", op["nth"]]
        if name == "arm_writer_fault":
            if self.writer is None:
                raise Skip("no writer")
            self.writer_fault = True
            return ["armed-writer"]
        return self._op_event()

    # ------------------------------------------------------------------
    def _tracer_fails_like(self, exc):
        for p in self.last_event:
            if not self._passes_cut(p):
                continue
            for ant in self.antennas:
                try:
                    t = self.tracer_cls(p.vertex, ant.position, ice_model=self.ice)
                    if t.exists:
                        for s in t.solutions:
                            s.tof, s.path_length, s.emitted_direction, s.received_direction
                            s.attenuation(np.array([1e8, 3e8]))
                except Exception as e:
                    if type(e) is type(exc):
                        return True
        return False

    def _passes_cut(self, p):
        wm = self.cfg["weight_min"]
        if wm is None:
            return True
        if isinstance(wm, list):
            if p.survival_weight is not None and p.survival_weight < wm[0]:
                return False
            if p.interaction_weight is not None and p.interaction_weight < wm[1]:
                return False
            return True
        return not (p.weight < wm)

    def _op_event(self):
        P = self.pyrex
        cfg = self.cfg
        if max(len(a.signals) for a in self.antennas) > self.MAX_SIGNALS + 4:
            raise Skip("antenna holds too many signals (cost bound)")
        n_rx_before = len(self.receive_log)
        n_model_before = len(self.model_log)
        n_writer_before = len(self.writer_log)
        sig_before = [len(a.signals) for a in self.antennas]
        gen = self.gen
        exhausted_expected = False
        if cfg["generator"] == "list" and not cfg["loop"] and self.events_drawn >= len(self.list_events):
            exhausted_expected = True
        count_before = gen.count
        writer_fault_armed = self.writer_fault and self.writer is not None
        self.last_event = None
        self.antenna_fault_fired = None
        st, res = self.sut(self.kernel.event, expect=(Exception,), where="kernel.event")
        if self.antenna_fault_fired is not None:
            # an antenna refused a delivery: the error must surface, and the antenna must
            # not be handed anything else in place of the refused delivery
            self.count("fault.antenna_rejected")
            self.nontrivial = True
            ant_i, pos = self.antenna_fault_fired
            if not (st == "raised" and isinstance(res, InjectedValueError)):
                raise Violation("C10:antenna-error-swallowed",
                                "antenna %d refused a delivery with ValueError but kernel.event() %s"
                                % (ant_i, "returned normally" if st == "ok" else "raised %r" % (res,)))
            if len(self.receive_log) != pos + 1:
                raise Violation("C10:delivery-after-refusal", "deliveries continued after an antenna refused one")
            for a in self.antennas:
                a.clear()
            if self.last_event is not None:
                self.events_drawn += 1
            return ["event", "antenna-rejected"]
        if st == "raised" and not isinstance(res, (StopIteration, seams.InjectedFault)):
            if self.exhausted_seen and isinstance(res, OSError) and self.last_event is None:
                # a file generator asked again after it has stopped: still "stopped"
                res = StopIteration()
            elif self.last_event is not None and self._tracer_fails_like(res):
                # the ray tracer itself cannot handle this geometry (C01/C02 territory)
                self.count("probe.tracer_failure")
                self.events_drawn += 1
                return ["event", "tracer-failure", type(res).__name__]
            else:
                raise Violation("unexpected-exception:%s@kernel.event" % type(res).__name__,
                                "%s: %s" % (type(res).__name__, res))
        if st == "raised" and isinstance(res, StopIteration):
            self.exhausted_seen = True
            self.count("fault.generator_exhausted")
            self.nontrivial = True
            if cfg["generator"] == "file" and self.events_drawn < len(cfg["events"]):
                raise Violation("C10:spurious-exhaustion", "file generator stopped after %d of %d events"
                                % (self.events_drawn, len(cfg["events"])))
            if cfg["generator"] == "list" and not exhausted_expected:
                raise Violation("C10:spurious-exhaustion", "StopIteration before the list was exhausted")
            if len(self.receive_log) != n_rx_before or [len(a.signals) for a in self.antennas] != sig_before:
                raise Violation("C10:exhaustion-touched-antennas",
                                "an exhausted generator still delivered signals to the antennas")
            if len(self.writer_log) != n_writer_before:
                raise Violation("C10:exhaustion-wrote", "an exhausted generator still wrote an event")
            return ["event", "exhausted"]
        if exhausted_expected:
            raise Violation("C10:exhaustion-ignored", "kernel.event() succeeded on an exhausted generator")
        writer_rejected = st == "raised"
        self.events_drawn += 1
        if writer_rejected:
            self.count("fault.writer_rejected")
            self.nontrivial = True
            if not writer_fault_armed:
                raise Violation("C10:unexpected-fault", "InjectedFault without an armed fault")
            event = self.writer_log[-1]["event"]
            triggered_ret = "n/a"
        else:
            if writer_fault_armed:
                raise Violation("C10:writer-error-swallowed",
                                "the writer rejected the event but kernel.event() returned normally")
            if self.trigger_funcs is None:
                event, triggered_ret = res, None
            else:
                event, triggered_ret = res
        # the generator's event
        if event is not self.last_event:
            raise Violation("C10:wrong-event", "kernel.event() did not return the event its generator produced")
        if cfg["generator"] == "list":
            want_ev = self.list_events[(self.events_drawn - 1) % len(self.list_events)]
            if event is not want_ev:
                raise Violation("C10:wrong-event", "kernel.event() did not return the generator's event")
        particles = list(event)
        # expected deliveries from independently constructed tracers
        expected = [[] for _ in self.antennas]     # per antenna: list of (particle, solution)
        for p in particles:
            if not self._passes_cut(p):
                self.count("probe.weight_cut")
                continue
            for i, ant in enumerate(self.antennas):
                # (the independent tracer always gets the coordinates as floats)
                st2, sols = self.sut(lambda: list(self.tracer_cls(np.array(p.vertex, dtype=float),
                                                                  np.array(ant.position, dtype=float),
                                                                  ice_model=self.ice).solutions),
                                     where="independent tracer")
                if not sols:
                    self.count("probe.no_solution")
                for s in sols:
                    expected[i].append((p, s))
        new_rx = self.receive_log[n_rx_before:]
        new_models = self.model_log[n_model_before:]
        # order of kernel loops: particle -> antenna -> solution
        per_ant = [[r for r in new_rx if r["ant"] == i] for i in range(len(self.antennas))]
        theta_c = {id(p): float(np.arccos(1 / self.ice.index(p.vertex[2]))) for p in particles}
        offcone = np.radians(180) if cfg["offcone_max"] is None else np.radians(cfg["offcone_max"])
        model_calls = {}
        for m in new_models:
            model_calls.setdefault(id(m["particle"]), []).append(m)
        for i in range(len(self.antennas)):
            if len(per_ant[i]) != len(expected[i]):
                raise Violation("C10:delivery-count",
                                "antenna %d received %d signals, the ray tracer has %d solutions for the "
                                "particles passing the weight cut" % (i, len(per_ant[i]), len(expected[i])))
            for j, (rx, (p, s)) in enumerate(zip(per_ant[i], expected[i])):
                want_t = self.signal_times + s.tof
                for t in rx["times"]:
                    if not ulp_equal(t, want_t):
                        raise Violation("C10:time-grid",
                                        "antenna %d delivery %d is not on signal_times + tof (tof=%r, first "
                                        "sample %r, expected %r)" % (i, j, float(s.tof), t[0], want_t[0]))
                psi = float(np.arccos(np.vdot(p.direction, s.emitted_direction)))
                is_off = abs(psi - theta_c[id(p)]) > offcone
                calls = [m for m in model_calls.get(id(p), [])
                         if abs(m["viewing_distance"] - float(s.path_length)) <= 1e-9 * float(s.path_length)
                         and abs(m["viewing_angle"] - psi) <= 1e-9]
                if is_off:
                    self.count("probe.offcone_empty")
                    if not rx["zero"]:
                        raise Violation("C10:offcone-not-empty",
                                        "antenna %d delivery %d is off-cone by more than offcone_max but "
                                        "carries a non-zero signal" % (i, j))
                else:
                    if not calls:
                        raise Violation("C10:signal-model-call",
                                        "no signal-model call with viewing_distance == path_length (%r) and "
                                        "viewing_angle == %r for antenna %d delivery %d"
                                        % (float(s.path_length), psi, i, j))
                    raised = any(c.get("raised") for c in calls)
                    if raised and not rx["zero"]:
                        raise Violation("C10:failed-pulse-not-empty",
                                        "the signal model raised ValueError but a non-zero signal was delivered")
                    if not raised and rx["n"] == 2:
                        if rx["direction"] is None or not ulp_equal(rx["direction"],
                                                                    np.asarray(s.received_direction), 8):
                            raise Violation("C10:direction", "antenna %d delivery %d direction is not the "
                                            "solution's received_direction" % (i, j))
                self.count("probe.signals_delivered")
                self.nontrivial = True
        # what the writer was told
        if self.writer is not None:
            new_w = self.writer_log[n_writer_before:]
            if len(new_w) != 1:
                raise Violation("C10:writer-calls", "writer.add called %d times for one event" % len(new_w))
            w = new_w[0]
            if w["event"] is not event:
                raise Violation("C10:writer-event", "writer received a different event object")
            want_thrown = gen.count - self.gen_count_at_last_add
            if w["events_thrown"] != want_thrown:
                raise Violation("C10:events-thrown", "events_thrown=%r, generator count advanced by %r since "
                                "the last successful add" % (w["events_thrown"], want_thrown))
            rp, pol = w["ray_paths"], w["polarizations"]
            if len(rp) != len(self.antennas) or len(pol) != len(self.antennas):
                raise Violation("C10:writer-shape", "ray_paths/polarizations not one list per antenna")
            for i in range(len(self.antennas)):
                if len(rp[i]) != len(expected[i]) or len(pol[i]) != len(expected[i]):
                    raise Violation("C10:writer-rays",
                                    "antenna %d: %d ray paths / %d polarizations reported for %d deliveries"
                                    % (i, len(rp[i]), len(pol[i]), len(expected[i])))
                for j, ((p, s), path, q) in enumerate(zip(expected[i], rp[i], pol[i])):
                    if not ulp_equal(float(path.tof), float(s.tof), 8):
                        raise Violation("C10:writer-ray-order", "antenna %d ray %d has tof %r, delivery %d "
                                        "has %r" % (i, j, float(path.tof), j, float(s.tof)))
                    q = np.asarray(q, dtype=float)
                    nq = float(np.linalg.norm(q))
                    if not (abs(nq - 1) < 1e-9 or nq < 1e-12):
                        raise Violation("C10:polarization", "polarization %r is neither unit nor zero" % (q,))
                    if abs(float(np.dot(q, s.emitted_direction))) > 1e-9:
                        raise Violation("C10:polarization", "polarization not perpendicular to the emitted "
                                        "direction (dot=%r)" % float(np.dot(q, s.emitted_direction)))
            if not writer_rejected:
                self.gen_count_at_last_add = gen.count
                self.accepted_adds += 1
        else:
            self.gen_count_at_last_add = gen.count
        # trigger result
        if not writer_rejected and self.trigger_funcs is not None:
            f = self.trigger_funcs["global"] if isinstance(self.trigger_funcs, dict) else self.trigger_funcs
            want = bool(f(self.antennas))
            if bool(triggered_ret) != want:
                raise Violation("C10:trigger-result", "kernel returned trigger %r, the supplied function gives "
                                "%r on the antennas" % (triggered_ret, want))
            if self.writer is not None:
                tw = self.writer_log[-1]["triggered"]
                if isinstance(self.trigger_funcs, dict):
                    wantd = {k: bool(fn(self.antennas)) for k, fn in self.trigger_funcs.items()}
                    if {k: bool(v) for k, v in tw.items()} != wantd:
                        raise Violation("C10:trigger-dict", "writer got triggers %r, functions give %r"
                                        % (tw, wantd))
                elif bool(tw) != want:
                    raise Violation("C10:trigger-result", "writer got trigger %r, function gives %r" % (tw, want))
        return ["event", [len(x) for x in expected], bool(writer_rejected)]

    def finish(self):
        if self.cfg["writer"] == "real" and self.writer is not None and self.writer.is_open:
            P = self.pyrex
            st, _ = self.sut(self.writer.close, where="writer.close")
            r = P.io.HDF5Reader("sim://c10_out.h5")
            st, _ = self.sut(r.open, where="reader.open")
            try:
                st, n = self.sut(len, r, where="len(reader)")
                if n != self.accepted_adds:
                    raise Violation("C10:file-event-count", "output file holds %d events, %d were written"
                                    % (n, self.accepted_adds))
                self.count("probe.real_writer_readback")
            finally:
                r.close()
            return ["final", n]
        return ["final", None]


MACHINES = [C10Kernel]
