"""C14 - interactions conserve energy, cross sections are consistent, event
trees are well formed.

Decided by simulation: per-draw bounds under every random stream (including
injected extreme draws: u = 0, 1-2^-53, values on the CC/NC and low-y
thresholds, Poisson counts 0 / large), the distributions of interaction kind
and inelasticity, the secondary retry loop, and histories of add_children.
The cross-section identities are evaluated on every particle the runs create.
"""
import math

import numpy as np
import scipy.constants

from sim.engine import Machine, Violation, Skip
from sim import seams
from props.c13_generators import ks_critical, Z_1E9

IDS = ["nu_e", "nu_e_bar", "nu_mu", "nu_mu_bar", "nu_tau", "nu_tau_bar"]
CC, NC = 1, 2


def models(pyrex, name, secondaries):
    base = pyrex.particle.CTWInteraction if name == "CTW" else pyrex.particle.GQRSInteraction
    if secondaries:
        return base
    return type(base.__name__ + "NoSecondaries", (base,), {"include_secondaries": False})


def ctw_nc_fraction(energy):
    eps = math.log10(energy)
    return 0.252162 + 0.0256 * math.log(eps - 1.76)


def ctw_cdf(y, energy, kind, anti):
    """Closed-form CDF of the CTW inelasticity (inverting the sampling formulas)."""
    eps = math.log10(energy)
    p_low = min(max(0.128 * math.sin(-0.197 * (eps - 21.8)), 0.0), 1.0)
    c2 = 2.55 - 0.0949 * eps
    y = np.asarray(y, dtype=float)
    # low-y branch on [0, 1e-3]
    a0, a1, a2, a3 = 0, 0.0941, 4.72, 0.456
    c1 = a0 - a1 * math.exp(-(eps - a2) / a3)
    A = (1e-3 - c1) ** (1 - 1 / c2)
    B = (0 - c1) ** (1 - 1 / c2)
    yl = np.clip(y, 0, 1e-3)
    cdf_low = ((yl - c1) ** (1 - 1 / c2) - B) / (A - B)
    # high-y branch on [1e-3, 1]
    if kind == CC:
        a0, a1, a2, a3 = (-0.0026, 0.085, 4.1, 1.7) if anti else (-0.008, 0.26, 3, 1.7)
    else:
        a0, a1, a2, a3 = -0.005, 0.23, 3, 1.7
    c1h = a0 - a1 * math.exp(-(eps - a2) / a3)
    yh = np.clip(y, 1e-3, 1)
    cdf_high = np.log((yh - c1h) / (1e-3 - c1h)) / math.log((1 - c1h) / (1e-3 - c1h))
    return p_low * cdf_low + (1 - p_low) * cdf_high


def gqrs_cdf(y):
    r1 = 1 / math.e
    y = np.clip(np.asarray(y, dtype=float), 0, 1)
    return 1 - (np.exp(-y ** 0.4) - r1) / (1 - r1)


def ks_against(samples, cdf):
    x = np.sort(np.asarray(samples, dtype=float))
    n = len(x)
    F = cdf(x)
    i = np.arange(1, n + 1)
    return float(max(np.max(i / n - F), np.max(F - (i - 1) / n)))


class C14Interactions(Machine):
    prop_id = "C14"
    name = "interactions"
    level = "exploration"
    budget = {"quick": 3600, "thorough": 150000}
    max_steps = 6
    rule = ("seeded batches of 50-300 Particle constructions (six neutrino types, energies log-uniform "
            "1e3..1e12 plus the edges of the secondary tables 1e18..1e21.5, both interaction models, secondaries "
            "on/off, interaction type forced or drawn) with optional injected extreme draws; every particle is "
            "checked for the bounds and cross-section identities; non-trivial = the batch used injected draws "
            "or produced secondaries that replaced the primary fractions; distinct = history digest")
    components = {"real": ["Particle", "GQRSInteraction", "CTWInteraction", "numpy.random via PRNG seam "
                           "(buggify: u=0, 1-2^-53, CC/NC and low-y thresholds, Poisson 0/large)"], "stub": []}
    assumptions = ["bounds carry a 1e-12 slack", "buggify violations reported only if the minimised trace "
                   "needs <=3 injected draws"]
    required_counters = ("probe.energy_reassigned", "draws.rand", "probe.particles_checked", "draws.injected", "probe.secondaries_won",
                         "probe.sigma_sum_checked")

    def draw_config(self, rng):
        return {"n_steps": rng.pick([1, 2, 4, 6]), "model": rng.pick(["CTW", "CTW", "GQRS"]),
                "secondaries": rng.chance(0.7), "buggify": rng.chance(0.4),
                "high": rng.chance(0.3)}

    def setup(self, cfg):
        import pyrex
        self.pyrex = pyrex
        self.cfg = cfg
        self.model = models(pyrex, cfg["model"], cfg["secondaries"])

    def draw_op(self, rng):
        cfg = self.cfg
        n = rng.pick([50, 100, 300])
        parts = []
        for _ in range(n):
            if cfg["high"] and rng.chance(0.5):
                e = 10 ** rng.pick([18, 18.5, 19, 19.49, 20, 20.5, 21, 21.5, 22])
            else:
                e = 10 ** rng.uniform(3, 12)
            parts.append([rng.randrange(6), float("%.6g" % e), rng.pick([None, None, "cc", "nc"])])
        op = {"op": "batch", "parts": parts}
        if cfg["buggify"] and rng.chance(0.7):
            inj = []
            e_ref = parts[0][1]
            thr = [0.6865254, 1 - 0.6865254]
            if e_ref < 1e15:
                thr += [ctw_nc_fraction(e_ref), 0.128 * math.sin(-0.197 * (math.log10(e_ref) - 21.8))]
            for _ in range(rng.randint(1, 3)):
                kind = rng.pick(["u", "u", "u", "poisson"])
                k = rng.randrange(0, 10)
                if kind == "u":
                    val = rng.pick([0.0, seams.ONE_MINUS_EPS] + [float(np.nextafter(t, 0)) for t in thr]
                                   + [float(t) for t in thr])
                    inj.append(["u", k, min(max(val, 0.0), seams.ONE_MINUS_EPS)])
                else:
                    inj.append(["poisson", rng.randrange(0, 3), rng.pick([0, 40, 200])])
            op["inject"] = inj
            op["parts"] = parts[:3]
        return op

    def apply(self, op):
        P = self.pyrex
        self.count("op.batch")
        if op.get("inject"):
            self.nontrivial = True
        by_group = {}
        for idx, energy, kind in op["parts"]:
            pid = IDS[idx]
            st, p = self.sut(P.Particle, pid, (0, 0, -100), (0, 0, 1), energy,
                             interaction_model=self.model, interaction_type=kind, where="Particle()")
            self._check_particle(p, kind)
            if (idx + int(energy)) % 4 == 0 and energy < 1e15:
                # the documented energy attribute is reassigned on the live particle: the
                # cross-section identities must hold at the new energy as well
                before = (float(p.interaction.cross_section), float(p.interaction.total_cross_section))
                p.energy = energy * (10.0 if energy < 1e11 else 0.1)
                self.count("probe.energy_reassigned")
                self._check_cross_sections(p)
                after = (float(p.interaction.cross_section), float(p.interaction.total_cross_section))
                up = p.energy > energy
                if any((a <= b) if up else (a >= b) for a, b in zip(after, before)):
                    raise Violation("C14:cross-section-not-increasing",
                                    "after reassigning the energy from %r to %r GeV the cross sections went "
                                    "from %r to %r" % (energy, p.energy, before, after))
                p.energy = energy
            key = (p.id.value > 0, p.interaction.kind.value)
            by_group.setdefault(key, []).append((energy, float(p.interaction.cross_section),
                                                 float(p.interaction.total_cross_section)))
        for key, rows in by_group.items():
            rows.sort()
            for (e1, s1, t1), (e2, s2, t2) in zip(rows[:-1], rows[1:]):
                if e2 > e1 and (s2 < s1 or t2 < t1):
                    raise Violation("C14:cross-section-not-increasing",
                                    "cross section falls from %r at %r GeV to %r at %r GeV" % (s1, e1, s2, e2))
        return ["batch", len(op["parts"])]

    def _check_particle(self, p, forced_kind):
        P = self.pyrex
        self.count("probe.particles_checked")
        it = p.interaction
        y, em, had = it.inelasticity, it.em_frac, it.had_frac
        kind = it.kind.value
        if kind not in (CC, NC):
            raise Violation("C14:kind", "interaction kind %r" % (it.kind,))
        if forced_kind is not None and it.kind.name[:2] not in (
                {"cc": "ch", "nc": "ne"}[forced_kind],):
            raise Violation("C14:kind-forced", "requested %s, got %s" % (forced_kind, it.kind.name))
        if em is None or had is None or y is None:
            raise Violation("C14:fractions-missing", "inelasticity/fractions are None (retry loop gave up)")
        if not (-1e-12 <= y <= 1 + 1e-12):
            raise Violation("C14:inelasticity-range", "inelasticity %r at %r GeV" % (y, p.energy))
        if em < -1e-12 or had < -1e-12 or em + had > 1 + 1e-12:
            raise Violation("C14:fractions-range", "em_frac=%r had_frac=%r (energy %r, kind %s)"
                            % (em, had, p.energy, it.kind.name))
        flav = abs(p.id.value)
        if kind == NC:
            if em != 0 or abs(had - y) > 1e-12:
                raise Violation("C14:nc-fractions", "neutral current: em=%r had=%r inelasticity=%r" % (em, had, y))
        elif flav == 12:
            if abs(em + had - 1) > 1e-12:
                raise Violation("C14:cc-nue-fractions", "CC nu_e: em+had=%r" % (em + had))
        elif not (em == 0 and abs(had - y) <= 1e-12):
            self.count("probe.secondaries_won")
            self.nontrivial = True
        self._check_cross_sections(p)

    def _check_cross_sections(self, p):
        P = self.pyrex
        it = p.interaction
        kind = it.kind.value
        s, t = float(it.cross_section), float(it.total_cross_section)
        if not (s > 0 and t > 0 and math.isfinite(s) and math.isfinite(t)):
            raise Violation("C14:cross-section-sign", "cross_section=%r total=%r at %r GeV" % (s, t, p.energy))
        NA = scipy.constants.N_A
        if abs(float(it.interaction_length) - 1 / (NA * s)) > 1e-12 / (NA * s) or \
                abs(float(it.total_interaction_length) - 1 / (NA * t)) > 1e-12 / (NA * t):
            raise Violation("C14:interaction-length", "interaction lengths are not 1/(N_A sigma)")
        if self.cfg["model"] == "CTW":
            other = "nc" if kind == CC else "cc"
            st, q = self.sut(P.Particle, p.id, (0, 0, -100), (0, 0, 1), p.energy,
                             interaction_model=models(P, "CTW", False), interaction_type=other,
                             where="Particle()")
            s_other = float(q.interaction.cross_section)
            if abs(s + s_other - t) > 1e-12 * t:
                raise Violation("C14:cross-section-sum", "sigma_CC+sigma_NC=%r, total=%r at %r GeV"
                                % (s + s_other, t, p.energy))
            self.count("probe.sigma_sum_checked")
            # the same identities through the documented ``kind`` attribute of the live interaction
            # (its cross section has just been read for the original kind)
            original = it.kind
            it.kind = other
            try:
                s_flip, t_flip = float(it.cross_section), float(it.total_cross_section)
                l_flip = float(it.interaction_length)
            finally:
                it.kind = original
            self.count("probe.kind_reassigned")
            if abs(s_flip - s_other) > 1e-12 * t or abs(t_flip - t) > 1e-12 * t or \
                    abs(l_flip - 1 / (NA * s_flip)) > 1e-12 / (NA * s_flip):
                raise Violation("C14:cross-section-after-kind-change",
                                "after setting kind=%s on an interaction whose cross section had been read: "
                                "sigma=%r (a fresh particle of that kind has %r), total %r (was %r)"
                                % (other, s_flip, s_other, t_flip, t))
            if abs(float(it.cross_section) - s) > 1e-12 * t:
                raise Violation("C14:cross-section-after-kind-change",
                                "setting kind back to %s gives sigma=%r, it was %r" % (original.name, float(it.cross_section), s))
        if s > t * (1 + 1e-12):
            raise Violation("C14:cross-section-sum", "partial cross section exceeds the total")


class C14Distributions(Machine):
    prop_id = "C14"
    name = "interaction_distributions"
    level = "exploration"
    budget = {"quick": 96, "thorough": 3000}
    max_steps = 1
    N = 20000
    rule = ("each run constructs 20000 particles of one (model, energy, type) on a seeded stream: CC fraction "
            "binomial against 0.6865254 (GQRS) / Eq. 8 (CTW); inelasticity per interaction kind by Kolmogorov-"
            "Smirnov against the closed-form CDF obtained by inverting the published sampling formulas; "
            "two-sided 1e-9; non-trivial = always")
    components = {"real": ["GQRSInteraction", "CTWInteraction", "numpy.random via PRNG seam"], "stub": []}
    assumptions = ["fixed 1e-9 level on fixed seeds: gross distortions only"]
    required_counters = ()

    def draw_config(self, rng):
        return {"n_steps": 1, "model": rng.pick(["CTW", "GQRS"]), "id": rng.randrange(6),
                "energy": float("%.4g" % (10 ** rng.uniform(3, 12)))}

    def setup(self, cfg):
        import pyrex
        self.pyrex = pyrex
        self.cfg = cfg
        self.model = models(pyrex, cfg["model"], False)

    def draw_op(self, rng):
        return {"op": "sample"}

    def apply(self, op):
        # the particle type of the run, then its charge conjugate at the very same energy
        # (in one process, one after the other: neither may inherit anything from the other)
        pid = IDS[self.cfg["id"]]
        conj = pid[:-4] if pid.endswith("_bar") else pid + "_bar"
        out = self._sample_and_check(pid)
        if conj in IDS:
            self.count("probe.conjugate_sampled")
            out2 = self._sample_and_check(conj)
            out[1]["conjugate"] = out2[1]
        return out

    def _sample_and_check(self, pid):
        P, cfg, N = self.pyrex, self.cfg, self.N
        E = cfg["energy"]

        def sample():
            out = []
            for _ in range(N):
                it = P.Particle(pid, (0, 0, -100), (0, 0, 1), E, interaction_model=self.model).interaction
                out.append((it.kind.value, it.inelasticity))
            return out
        st, data = self.sut(sample, where="sampling")
        self.nontrivial = True
        kinds = np.array([k for k, _ in data])
        ys = np.array([y for _, y in data], dtype=float)
        n_cc = int(np.sum(kinds == CC))
        p_cc = 0.6865254 if cfg["model"] == "GQRS" else 1 - ctw_nc_fraction(E)
        sd = math.sqrt(N * p_cc * (1 - p_cc))
        if abs(n_cc - N * p_cc) > Z_1E9 * sd + 1:
            raise Violation("C14:cc-fraction", "%d of %d interactions charged current, model fraction %.4f"
                            % (n_cc, N, p_cc))
        anti = pid.endswith("bar")
        out = {"cc": n_cc}
        for kind in (CC, NC):
            sel = ys[kinds == kind]
            if len(sel) < 500:
                continue
            if cfg["model"] == "GQRS":
                cdf = gqrs_cdf
            else:
                cdf = lambda y, k=kind: ctw_cdf(y, E, k, anti)
            dist = ks_against(sel, cdf)
            out["ks_%d" % kind] = round(dist, 5)
            if dist > ks_critical(len(sel)):
                raise Violation("C14:inelasticity-distribution",
                                "%s %s at %.3g GeV: KS distance %.4f from the published inelasticity "
                                "distribution over %d draws (critical %.4f)"
                                % (cfg["model"], "CC" if kind == CC else "NC", E, dist, len(sel),
                                   ks_critical(len(sel))))
        return ["sample", out]


class C14Trees(Machine):
    prop_id = "C14"
    name = "event_trees"
    level = "exploration"
    budget = {"quick": 12000, "thorough": 600000}
    max_steps = 25
    rule = ("seeded histories (<=25 ops) of Event construction (1-3 roots), add_children(parent, one | list) "
            "with PRNG-chosen parents, rejected add_children (parent not in the tree), and queries "
            "(iteration, len, get_children, get_parent, get_from_level) against a parent-pointer model; "
            "non-trivial = depth >= 2 or a rejected add; distinct = history digest")
    components = {"real": ["pyrex.Event", "pyrex.Particle"], "stub": []}
    assumptions = ["adding the same particle object twice is a caller error and is not generated"]
    required_counters = ("fault.add_rejected", "op.add_children", "probe.depth_ge_2")

    def draw_config(self, rng):
        return {"n_steps": rng.pick([3, 6, 12, 25])}

    def setup(self, cfg):
        import pyrex
        self.pyrex = pyrex
        self.event = None
        self.parts = []      # model: insertion order
        self.parent = {}     # id(child) -> parent particle or None
        self.older = None    # (event, parts, parent) of a previous event sharing a particle with this one
        self.serial = 0

    def _new_particle(self):
        P = self.pyrex
        self.serial += 1
        return P.Particle("nu_e", (float(self.serial), 0, -100), (0, 0, 1), 1e9, interaction_type="nc")

    def draw_op(self, rng):
        if self.event is None:
            return {"op": "new", "roots": rng.randint(1, 3), "as_list": rng.chance(0.7)}
        k = rng.weighted([("add_children", 5.0), ("query", 2.0), ("bad_add", 0.7), ("new", 0.3)])
        if k == "new":
            return {"op": "new", "roots": rng.randint(1, 3), "as_list": rng.chance(0.7),
                    "share": rng.randrange(8) if rng.chance(0.6) else None}
        if k == "add_children":
            return {"op": "add_children", "parent": rng.randrange(64), "n": rng.randint(1, 3),
                    "single": rng.chance(0.3), "as_tuple": rng.chance(0.3)}
        if k == "bad_add":
            return {"op": "bad_add", "n": rng.randint(1, 2)}
        return {"op": "query"}

    def apply(self, op):
        P = self.pyrex
        name = op["op"]
        self.count("op." + name)
        if name == "new":
            roots = [self._new_particle() for _ in range(op["roots"])]
            shared = None
            if op.get("share") is not None and self.event is not None:
                # a particle that is a child in the previous event is a root of the new one
                # (the previous event stays alive and is still queried)
                kids = [p for p in self.parts if self.parent[id(p)] is not None]
                if kids:
                    shared = kids[op["share"] % len(kids)]
                    roots[0] = shared
                    self.older = (self.event, list(self.parts), dict(self.parent))
                    self.count("probe.particle_in_two_events")
                    self.nontrivial = True
            if shared is None:
                self.older = None
            arg = roots if (op["as_list"] or len(roots) > 1) else roots[0]
            st, ev = self.sut(P.Event, arg, where="Event()")
            self.event, self.parts = ev, list(roots)
            self.parent = {id(r): None for r in roots}
            self._check()
            return ["new", len(roots)]
        if self.event is None:
            raise Skip("no event")
        if name == "add_children":
            parent = self.parts[op["parent"] % len(self.parts)]
            kids = [self._new_particle() for _ in range(1 if op["single"] else op["n"])]
            arg = kids[0] if op["single"] else (tuple(kids) if op.get("as_tuple") else kids)
            st, _ = self.sut(self.event.add_children, parent, arg, where="add_children")
            for k in kids:
                self.parts.append(k)
                self.parent[id(k)] = parent
            self._check()
            return ["add_children", len(kids)]
        if name == "bad_add":
            stranger = self._new_particle()
            kids = [self._new_particle() for _ in range(op["n"])]
            st, res = self.sut(self.event.add_children, stranger, kids, expect=(ValueError,),
                               where="add_children")
            self.count("fault.add_rejected")
            self.nontrivial = True
            if st != "raised":
                raise Violation("C14:foreign-parent-accepted",
                                "add_children with a parent outside the tree did not raise")
            self._check()
            return ["bad_add"]
        self._check()
        return ["query", len(self.parts)]

    def _depth(self, p):
        d = 0
        while self.parent[id(p)] is not None:
            p = self.parent[id(p)]
            d += 1
        return d

    def _check(self):
        self._check_one()
        if self.older is not None:
            cur = (self.event, self.parts, self.parent)
            self.event, self.parts, self.parent = self.older
            try:
                self._check_one()
            finally:
                self.event, self.parts, self.parent = cur

    def _check_one(self):
        ev = self.event
        st, seen = self.sut(lambda: list(ev), where="iter")
        if len(seen) != len(self.parts) or sorted(map(id, seen)) != sorted(map(id, self.parts)):
            raise Violation("C14:tree-iteration", "iteration yields %d particles (%d distinct), %d were added"
                            % (len(seen), len(set(map(id, seen))), len(self.parts)))
        if len(ev) != len(self.parts):
            raise Violation("C14:tree-len", "len(event)=%d, %d particles added" % (len(ev), len(self.parts)))
        children = {}
        for p in self.parts:
            par = self.parent[id(p)]
            if par is not None:
                children.setdefault(id(par), []).append(p)
        max_depth = 0
        for p in self.parts:
            st, got = self.sut(ev.get_children, p, where="get_children")
            want = children.get(id(p), [])
            if sorted(map(id, got)) != sorted(map(id, want)):
                raise Violation("C14:tree-children", "get_children returns %d particles, %d were added to "
                                "this parent" % (len(got), len(want)))
            st, par = self.sut(ev.get_parent, p, where="get_parent")
            if par is not self.parent[id(p)]:
                raise Violation("C14:tree-parent", "get_parent disagrees with the add_children history")
            max_depth = max(max_depth, self._depth(p))
        if max_depth >= 2:
            self.count("probe.depth_ge_2")
            self.nontrivial = True
        total = 0
        for level in range(max_depth + 2):
            st, got = self.sut(ev.get_from_level, level, where="get_from_level")
            want = [p for p in self.parts if self._depth(p) == level]
            if sorted(map(id, got)) != sorted(map(id, want)):
                raise Violation("C14:tree-levels", "level %d holds %d particles, breadth-first depth gives %d"
                                % (level, len(got), len(want)))
            total += len(got)
        if total != len(self.parts):
            raise Violation("C14:tree-levels", "levels do not partition the particles")

    def finish(self):
        if self.event is not None:
            self._check()
        return len(self.parts)


MACHINES = [C14Interactions, C14Distributions, C14Trees]
