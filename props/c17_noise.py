"""C17 - thermal noise is band-limited, has the requested RMS and is reproducible
in absolute time.

What simulation decides here: dependence on the random stream (phases,
Rayleigh amplitudes, independence, average RMS - with injected extreme draws)
and the history part (one realisation re-gridded, shifted, copied, rebuilt
from its published basis, stored in and rebuilt from a file on the simulated
disk).  The cosine-sum / band / DFT identities are evaluated as invariants on
every object the runs create.
"""
import math

import numpy as np
import scipy.constants

from sim.engine import Machine, Violation, Skip
from sim import seams

MAX_VIEWS = 5


def make_amp_fn(spec):
    k = spec["a"]
    if k == "rolloff":
        f0 = spec["f0"]
        return lambda f: 1.0 / (1.0 + np.asarray(f) / f0)
    if k == "scalar_exp":
        f0 = spec["f0"]
        return lambda f: math.exp(-float(f) / f0)   # TypeError on arrays
    raise ValueError(k)


class Basis:
    """Published definition of one realisation, used by the explicit evaluator."""

    def __init__(self, obj, cls, times, unique):
        self.cls = cls
        self.freqs = np.array(obj.freqs, dtype=float)
        self.amps = np.array(obj.amps, dtype=float)
        self.phases = np.array(obj.phases, dtype=float)
        self.rms = float(obj.rms)
        self.start = float(times[0])
        self.dt = float(times[1] - times[0])
        self.n_all = int(unique) * len(times)

    def weights(self):
        """Real-FFT weights of the published bins (FFT class)."""
        w = np.full(len(self.freqs), 2.0)
        df = 1.0 / (self.n_all * self.dt)
        m = np.rint(self.freqs / df).astype(int)
        w[m == 0] = 1.0
        if self.n_all % 2 == 0:
            w[m == self.n_all // 2] = 1.0
        return w, m

    def evaluate(self, t_rel):
        """Explicit cosine sum at times relative to the realisation's origin."""
        t_rel = np.asarray(t_rel, dtype=float)
        nf = len(self.freqs)
        if nf == 0:
            return np.zeros(len(t_rel)), 0.0
        if self.cls == "full":
            arg = 2 * np.pi * np.outer(t_rel, self.freqs) + self.phases[None, :]
            vals = (np.cos(arg) * self.amps[None, :]).sum(axis=1)
            norm = self.rms * math.sqrt(2.0 / nf)
            return vals * norm, norm * float(np.sum(np.abs(self.amps)))
        w, m = self.weights()
        arg = 2 * np.pi * np.outer(t_rel - self.start, self.freqs) - self.phases[None, :]
        vals = (np.cos(arg) * (self.amps * w)[None, :]).sum(axis=1)
        norm = self.rms * math.sqrt(1.0 / (2.0 * nf))
        return vals * norm, norm * float(np.sum(np.abs(self.amps * w)))

    def on_grid(self, t_rel):
        k = (np.asarray(t_rel, dtype=float) - self.start) / self.dt
        return np.abs(k - np.rint(k)) < 1e-6


class View:
    def __init__(self, obj, shift):
        self.obj = obj
        self.shift = shift


class C17Noise(Machine):
    prop_id = "C17"
    name = "noise"
    level = "exploration"
    budget = {"quick": 9000, "thorough": 400000}
    max_steps = 16
    rule = ("seeded histories (<=16 ops): construct FFT/Full thermal noise (grids 8-256 samples even/odd, "
            "bands inside / touching 0 / above Nyquist / empty, amplitude constant / function / default "
            "Rayleigh, uniqueness 1-10, rms direct or from T,R), then read, re-grid (contained, overlapping, "
            "disjoint, far), shift, copy, rebuild from the published basis, rebuild from a basis stored in "
            "a file on the simulated disk, independent re-draw, with injected extreme PRNG draws; "
            "non-trivial = the history re-observes an absolute time through a different view, rebuilds "
            "from a basis or contains a fault; distinct = history digest")
    components = {"real": ["FFTThermalNoise", "FullThermalNoise", "Antenna.make_noise",
                           "HDF5Writer._get_noise_bases / EventIterator.noise_bases on SimDisk",
                           "numpy.random via PRNG seam (buggify: phase 0 / 1-2^-53, Rayleigh 0)"],
                  "stub": []}
    assumptions = ["off-grid values of the FFT implementation are only compared with other observations of "
                   "the same absolute time (its interpolation rule is not fixed by the statement)",
                   "unit-amplitude RMS identity only asserted when the band contains neither the DC nor the "
                   "Nyquist bin", "amplitude functions are vectorised or raise TypeError on arrays"]
    required_counters = ("probe.abs_time_reobserved", "probe.rebuild_compared", "fault.bad_band",
                         "fault.no_rms", "probe.file_basis_compared", "probe.dft_checked",
                         "probe.unit_rms_checked", "draws.injected", "probe.antenna_windows", "draws.rand", "draws.rayleigh",
                         "probe.shared_window")

    # ------------------------------------------------------------------
    def draw_config(self, rng):
        n = rng.pick([8, 9, 16, 33, 64, 100, 256])
        dt = rng.pick([1e-9, 0.5e-9, 2e-9])
        return {"n_steps": rng.pick([3, 5, 8, 12, 16]), "n": n, "dt": dt,
                "t0": rng.pick([0.0, -50e-9, 1e-6]), "buggify": rng.chance(0.3)}

    def setup(self, cfg):
        import pyrex
        self.pyrex = pyrex
        self.cfg = cfg
        self.basis = None
        self.spec = None
        self.views = []
        self.obs = {}       # key of relative absolute time -> value (FFT off-grid consistency)
        self.disk = seams.SimDisk()
        seams.set_disk(self.disk)
        self.file_counter = 0

    def _grid(self, k0=0, m=None, frac=0.0, step=1.0):
        cfg = self.cfg
        m = cfg["n"] if m is None else m
        # steps are multiples of a quarter sample step (the resolution of the absolute-time map)
        return cfg["t0"] + cfg["dt"] * (k0 + frac + step * np.arange(m))

    def _inject(self, rng):
        if not self.cfg["buggify"] or not rng.chance(0.5):
            return None
        out = []
        for _ in range(rng.randint(1, 2)):
            kind = rng.pick(["u", "u", "rayleigh"])
            k = rng.randrange(0, 12)
            val = rng.pick([0.0, seams.ONE_MINUS_EPS]) if kind == "u" else 0.0
            out.append([kind, k, val])
        return out

    def draw_op(self, rng):
        cfg = self.cfg
        if self.basis is None and not self.views:
            kinds = [("new", 1.0), ("bad_band", 0.1), ("no_rms", 0.1)]
        else:
            kinds = [("new", 0.4), ("read", 2.0), ("with_times", 2.0), ("shift", 1.0), ("copy", 0.7),
                     ("rebuild", 1.0), ("rebase_evaluated", 0.7), ("shared_window", 0.5),
                     ("independent", 0.5), ("file_basis", 0.5),
                     ("antenna_windows", 0.5),
                     ("bad_band", 0.2), ("no_rms", 0.2)]
        k = rng.weighted(kinds)
        nyq = 0.5 / cfg["dt"]
        if k == "new":
            band_kind = rng.pick(["inside", "inside", "touch0", "above_nyq", "across_nyq", "narrow"])
            band = {"inside": [0.1 * nyq, 0.7 * nyq], "touch0": [0.0, 0.5 * nyq],
                    "above_nyq": [1.2 * nyq, 1.8 * nyq], "across_nyq": [0.6 * nyq, 1.3 * nyq],
                    "narrow": [0.30 * nyq, 0.3001 * nyq]}[band_kind]
            amp = rng.pick([None, None, 1.0, 1.0, 0.5,
                            {"a": "rolloff", "f0": 0.3 * nyq}, {"a": "scalar_exp", "f0": 0.5 * nyq}])
            op = {"op": "new", "cls": rng.pick(["fft", "fft", "full"]), "band": band,
                  "band_kind": band_kind, "amp": amp, "unique": rng.pick([1, 1, 2, 3, 10]),
                  "rms": rng.pick([None, 1.0, 2.5e-5]), "T": 250.0, "R": 75.0}
            inj = self._inject(rng)
            if inj:
                op["inject"] = inj
            return op
        if k in ("bad_band", "no_rms"):
            return {"op": k, "cls": rng.pick(["fft", "full"])}
        v = rng.randrange(max(1, len(self.views)))
        n = cfg["n"]
        if k == "with_times":
            mode = rng.pick(["contained", "overlap", "disjoint", "far", "offgrid", "same", "fullperiod"])
            unique = int((self.spec or {}).get("unique", 1))
            w = {"contained": [rng.randint(0, n // 2), max(2, n // 2)],
                 "overlap": [rng.pick([-n // 2, n // 2]), n], "disjoint": [2 * n + 1, n],
                 "far": [37 * n + 5, max(2, n // 2)], "offgrid": [rng.randint(-3, 3), n],
                 "same": [0, n],
                 # as many samples as one full period of the realisation, from its first sample
                 "fullperiod": [0, unique * n]}[mode]
            # the window's own sample step: the realisation is a function of time, not of sample index
            step = rng.pick([1, 1, 1, 2, 0.5, 3, 1.5, 0.75]) if mode != "fullperiod" else rng.pick([1, 2, 0.5, 1.5])
            return {"op": "with_times", "v": v, "k0": w[0], "m": w[1], "step": step,
                    "frac": rng.pick([0.5, 0.25]) if mode == "offgrid" else 0.0}
        if k == "shift":
            return {"op": "shift", "v": v, "k": rng.pick([1, -1, 5, -17, 100])}
        if k in ("read", "copy", "rebuild"):
            return {"op": k, "v": v}
        if k == "rebase_evaluated":
            how = rng.pick(["rebind", "inplace", "aug"])
            return {"op": k, "k0": rng.randint(-n, n), "m": rng.pick([n, max(2, n // 2)]),
                    "inplace": how == "inplace", "how": how}
        if k == "shared_window":
            return {"op": k, "v": v, "k0": rng.randint(-n, n), "shift": rng.pick([1, -2, 7])}
        if k == "antenna_windows":
            return {"op": k, "unique": rng.pick([1, 2, 3]), "k0": rng.randint(-5, 20),
                    "factor": rng.pick([2, 4, 6]), "edit_returned": rng.chance(0.5),
                    "reset_after": rng.chance(0.4)}
        if k == "independent":
            op = {"op": "independent"}
            inj = self._inject(rng)
            if inj:
                op["inject"] = inj
            return op
        if k == "file_basis":
            return {"op": "file_basis", "unique": rng.pick([1, 3]), "k0": rng.randint(-5, 20),
                    "silent_before": rng.pick([0, 1, 2]), "silent_after": rng.chance(0.5)}
        raise AssertionError(k)

    # ------------------------------------------------------------------
    def _construct(self, spec, times):
        P = self.pyrex
        cls = P.signals.FFTThermalNoise if spec["cls"] == "fft" else P.signals.FullThermalNoise
        amp = spec["amp"]
        kw = {}
        if isinstance(amp, dict):
            kw["f_amplitude"] = make_amp_fn(amp)
        elif amp is not None:
            kw["f_amplitude"] = amp
        if spec["rms"] is not None:
            kw["rms_voltage"] = spec["rms"]
        else:
            kw["temperature"] = spec["T"]
            kw["resistance"] = spec["R"]
        return cls(times, tuple(spec["band"]), uniqueness_factor=spec["unique"], **kw)

    def apply(self, op):
        name = op["op"]
        self.count("op." + name)
        return getattr(self, "_op_" + name)(op)

    def _op_new(self, op):
        times = self._grid()
        st, obj = self.sut(self._construct, op, times, where="ThermalNoise()")
        self.spec = dict(op)
        self.basis = Basis(obj, op["cls"], times, op["unique"])
        self.views = [View(obj, 0.0)]
        self.obs = {}
        b = self.basis
        fmin, fmax = op["band"]
        if len(b.freqs) and (np.any(b.freqs < fmin * (1 - 1e-12)) or np.any(b.freqs > fmax * (1 + 1e-12))):
            raise Violation("C17:freqs-outside-band",
                            "published frequencies %r..%r outside the requested band [%r, %r]"
                            % (b.freqs.min(), b.freqs.max(), fmin, fmax))
        if not (len(b.freqs) == len(b.amps) == len(b.phases)):
            raise Violation("C17:basis-shape", "freqs/amps/phases lengths differ")
        if op["rms"] is None:
            want = math.sqrt(scipy.constants.k * op["T"] * op["R"] * (fmax - fmin))
            if abs(b.rms - want) > 1e-12 * want:
                raise Violation("C17:rms-from-temperature", "rms %r, sqrt(k_B T R bandwidth)=%r"
                                % (b.rms, want))
        elif b.rms != op["rms"]:
            raise Violation("C17:rms", "rms attribute %r, requested %r" % (b.rms, op["rms"]))
        if np.any(b.freqs == 0) and np.any(b.amps[b.freqs == 0] != 0):
            raise Violation("C17:dc-not-zeroed", "zero-frequency amplitude is not zero")
        self._check_view(self.views[0], "new")
        self._spectral_checks(op)
        return ["new", op["cls"], len(b.freqs)]

    def _spectral_checks(self, op):
        """DFT over one full period: no power outside the published bins; unit
        amplitudes give the requested RMS."""
        b = self.basis
        if b.cls != "fft" or len(b.freqs) == 0:
            return
        nyq = 0.5 / b.dt
        full = b.start + b.dt * np.arange(b.n_all)
        st, v = self.sut(lambda: np.array(self.views[0].obj.with_times(full).values, dtype=float),
                         where="with_times(full period)")
        if op["band"][1] < nyq:
            spec = np.fft.rfft(v)
            power = np.abs(spec) ** 2
            w, m = b.weights()
            mask = np.ones(len(power), dtype=bool)
            mask[m[m < len(power)]] = False
            tot = float(power.sum())
            if tot > 0 and float(power[mask].sum()) > 1e-9 * tot:
                raise Violation("C17:out-of-band-power",
                                "%.3g of the power of one full period lies outside the published bins"
                                % (float(power[mask].sum()) / tot))
            self.count("probe.dft_checked")
        w, m = b.weights()
        if op["amp"] == 1.0 and np.all(w == 2.0) and np.all(b.amps == 1.0):
            rms = float(np.sqrt(np.mean(v ** 2)))
            if abs(rms - b.rms) > 1e-9 * b.rms:
                raise Violation("C17:unit-amplitude-rms",
                                "unit amplitudes give RMS %r over a full period, requested %r"
                                % (rms, b.rms))
            self.count("probe.unit_rms_checked")

    def _check_view(self, view, what):
        st, tv = self.sut(lambda: (np.array(view.obj.times, dtype=float),
                                   np.array(view.obj.values, dtype=float)), where="read")
        times, vals = tv
        if len(times) != len(vals):
            raise Violation("C17:length", "values/times lengths differ")
        b = self.basis
        t_rel = times - view.shift
        exp, mag = b.evaluate(t_rel)
        tol = 1e-9 * max(mag, b.rms * 1e-3) + 1e-300
        if b.cls == "full":
            sel = np.ones(len(times), dtype=bool)
        else:
            sel = b.on_grid(t_rel)
        # conditioning for large |t|: phase error 2 pi f eps |t|
        if len(b.freqs):
            tol += mag * 2 * np.pi * float(np.max(b.freqs)) * 4e-16 * float(np.max(np.abs(times)) + abs(view.shift))
        bad = sel & ~(np.abs(vals - exp) <= tol)
        if np.any(bad):
            k = int(np.argmax(bad))
            raise Violation("C17:not-cosine-sum",
                            "%s: value[%d]=%r but the published (freqs, amps, phases) give %r"
                            % (what, k, vals[k], exp[k]))
        # absolute-time consistency for everything (incl. off-grid FFT values)
        for t, v in zip(t_rel, vals):
            key = int(round((t - b.start) / (b.dt / 4)))
            if key in self.obs:
                old, owner = self.obs[key]
                if owner != id(view):
                    self.count("probe.abs_time_reobserved")
                    self.nontrivial = True
                if abs(old - v) > tol:
                    raise Violation("C17:not-absolute-time",
                                    "%s: the realisation had value %r at this absolute time before, now %r"
                                    % (what, old, v))
            else:
                self.obs[key] = (float(v), id(view))
        return len(times)

    def _view(self, op):
        if not self.views or self.basis is None:
            raise Skip("no noise object")
        return self.views[op["v"] % len(self.views)]

    def _push(self, view):
        if len(self.views) >= MAX_VIEWS:
            self.views.pop(1 if len(self.views) > 1 else 0)
        self.views.append(view)

    def _op_read(self, op):
        return ["read", self._check_view(self._view(op), "read")]

    def _op_with_times(self, op):
        v = self._view(op)
        new_t = self._grid(op["k0"], op["m"], op["frac"], op.get("step", 1.0)) + v.shift
        if op.get("step", 1.0) != 1.0:
            self.count("probe.window_other_step")
        st, obj = self.sut(v.obj.with_times, new_t, where="with_times")
        nv = View(obj, v.shift)
        self._push(nv)
        return ["with_times", self._check_view(nv, "with_times")]

    def _op_shift(self, op):
        v = self._view(op)
        d = op["k"] * self.cfg["dt"]
        st, _ = self.sut(v.obj.shift, d, where="shift")
        v.shift += d
        return ["shift", self._check_view(v, "shift")]

    def _op_copy(self, op):
        v = self._view(op)
        st, obj = self.sut(v.obj.copy, where="copy")
        nv = View(obj, v.shift)
        self._push(nv)
        return ["copy", self._check_view(nv, "copy")]

    def _op_rebuild(self, op):
        """A second object with the same grid and band, given the published basis."""
        if self.basis is None:
            raise Skip("no basis")
        spec = dict(self.spec)
        spec["amp"] = 1.0
        times = self._grid()
        st, obj = self.sut(self._construct, spec, times, where="ThermalNoise() for rebuild")
        if len(obj.freqs) != len(self.basis.freqs) or np.any(np.asarray(obj.freqs) != self.basis.freqs):
            raise Violation("C17:rebuild-freqs", "same grid and band give different frequencies")
        obj.amps = self.basis.amps.copy()
        obj.phases = self.basis.phases.copy()
        nv = View(obj, 0.0)
        self.count("probe.rebuild_compared")
        self.nontrivial = True
        n = self._check_view(nv, "rebuilt from basis")
        self._push(nv)
        return ["rebuild", n]

    def _op_rebase_evaluated(self, op):
        """An object that has already been evaluated receives the published basis
        and is then re-gridded: the new waveform must follow the installed basis."""
        if self.basis is None:
            raise Skip("no basis")
        spec = dict(self.spec)
        spec["amp"] = 1.0
        times = self._grid()
        st, obj = self.sut(self._construct, spec, times, where="ThermalNoise() for rebase")
        if len(obj.freqs) != len(self.basis.freqs):
            raise Violation("C17:rebuild-freqs", "same grid and band give different frequencies")
        later = times + self.cfg["dt"]
        how = op.get("how") or ("inplace" if op.get("inplace") else "rebind")
        if how == "aug":
            # the basis is reached by augmented assignments (in-place arithmetic followed by the
            # assignment of the same array object) after the object was evaluated
            obj.amps = self.basis.amps * 0.5
            obj.phases = self.basis.phases - 1.0
        st, _ = self.sut(lambda: (np.array(obj.values), np.array(obj.with_times(later).values)),
                         where="evaluate before rebase")
        if how == "aug":
            obj.amps *= 2.0
            obj.phases += 1.0
            self.count("probe.basis_by_augmented_assignment")
        elif how == "inplace":
            # the published arrays are edited in place (same array objects)
            obj.amps[:] = self.basis.amps
            obj.phases[:] = self.basis.phases
        else:
            obj.amps = self.basis.amps.copy()
            obj.phases = self.basis.phases.copy()
        self.count("probe.rebuild_compared")
        self.nontrivial = True
        n = 0
        if how != "inplace":
            # the object itself (its values were read before the assignment) publishes the new basis
            n += self._check_view(View(obj, 0.0), "values of an evaluated object after its basis was assigned")
        # the very windows that were evaluated before the basis changed, and a new one
        for window, what in ((later, "re-gridded onto the window last evaluated before the basis was installed"),
                             (times.copy(), "re-gridded onto its own grid after installing the basis"),
                             (self._grid(op["k0"], op["m"]),
                              "re-gridded after installing the basis on an evaluated object")):
            st, w = self.sut(obj.with_times, window, where="with_times after rebase")
            n += self._check_view(View(w, 0.0), what)
        return ["rebase_evaluated", n]

    def _op_shared_window(self, op):
        """Two re-grids onto the very same window array; shifting one result must
        leave the other (and the caller's array) alone."""
        v = self._view(op)
        window = self._grid(op["k0"]) + v.shift
        keep = window.copy()
        st, res = self.sut(lambda: (v.obj.with_times(window), v.obj.with_times(window)), where="with_times")
        a, b = res
        va = View(a, v.shift)
        self._check_view(va, "first re-grid")
        d = op["shift"] * self.cfg["dt"]
        st, _ = self.sut(b.shift, d, where="shift")
        if not np.array_equal(window, keep):
            raise Violation("C17:caller-window-modified", "shifting a re-gridded noise changed the caller's "
                            "window array")
        self.count("probe.shared_window")
        self.nontrivial = True
        self._check_view(va, "first re-grid after the second one was shifted")
        vb = View(b, v.shift + d)
        self._push(va)
        return ["shared_window", self._check_view(vb, "second re-grid, shifted")]

    def _op_antenna_windows(self, op):
        """The antenna's noise is one realisation in absolute time, whatever the
        lengths of the windows it is asked for."""
        P = self.pyrex
        dt = self.cfg["dt"]
        n = self.cfg["n"]
        ant = P.Antenna(position=(0, 0, -100), noisy=True, freq_range=(0.1 / dt, 0.35 / dt),
                        noise_rms=1.0, unique_noise_waveforms=op["unique"])
        w1 = self._grid(op["k0"], n)
        long_n = (op["unique"] * op["factor"] + 1) * n
        w2 = self._grid(op["k0"] - 3, long_n)
        def run():
            first = ant.make_noise(w1)
            a = np.array(first.values, dtype=float)
            if op.get("reset_after"):
                held = ant.make_noise(w1)
                hv = np.array(held.values, dtype=float)
                ant.clear(reset_noise=True)
                # the requested RMS of the antenna is changed while no realisation exists:
                # the next realisation has the new one (compared only where at least ~30
                # frequency components make the sample RMS a sharp estimate: 10x vs a 3x bar)
                ant.noise_rms = 10.0
                new_rms = float(np.sqrt(np.mean(np.array(ant.make_noise(w2).values, dtype=float) ** 2)))
                old_rms = float(np.sqrt(np.mean(hv ** 2)))
                if 0.25 * n * op["unique"] >= 30 and n >= 64:
                    self.count("probe.rms_changed_after_reset")
                    if not new_rms > 3.0 * old_rms:
                        raise Violation("C17:rms-after-reset",
                                        "noise_rms was raised from 1 to 10 after clear(reset_noise=True) but the "
                                        "new realisation has sample RMS %.3g (the old one %.3g)" % (new_rms, old_rms))
                # a waveform handed out (and read) before the reset is still a function of
                # absolute time: re-gridding it reproduces what was read
                sub = w1[2:max(4, n // 2)]
                again = np.array(held.with_times(sub).values, dtype=float)
                if np.max(np.abs(again - hv[2:max(4, n // 2)])) > 1e-9 or \
                        np.max(np.abs(np.array(held.values, dtype=float) - hv)) > 1e-9:
                    raise Violation("C17:handed-out-noise-changed",
                                    "a noise waveform obtained and read before clear(reset_noise=True) gives "
                                    "other values when re-gridded afterwards (max |diff| %.3g)"
                                    % float(np.max(np.abs(again - hv[2:max(4, n // 2)]))))
                self.count("probe.reset_with_waveform_held")
                first = ant.make_noise(w1)
                a = np.array(first.values, dtype=float)
            if op.get("edit_returned"):
                # the caller owns what make_noise returned: editing it in place must not
                # change the antenna's noise
                first *= 3.0
                first.shift(5 * dt)
            return a, np.array(ant.make_noise(w2).values, dtype=float), \
                np.array(ant.make_noise(w1).values, dtype=float)
        st, res = self.sut(run, where="Antenna.make_noise")
        v1, v2, v3 = res
        self.count("probe.antenna_windows")
        self.nontrivial = True
        if np.max(np.abs(v2[3:3 + n] - v1)) > 1e-9 or np.max(np.abs(v3 - v1)) > 1e-9:
            raise Violation("C17:antenna-noise-not-absolute-time",
                            "antenna noise over a long window (%d samples) differs from the noise seen "
                            "earlier at the shared sample times (max |diff| %.3g)"
                            % (long_n, float(max(np.max(np.abs(v2[3:3 + n] - v1)), np.max(np.abs(v3 - v1))))))
        return ["antenna_windows", long_n]

    def _op_independent(self, op):
        if self.basis is None:
            raise Skip("no basis")
        times = self._grid()
        st, obj = self.sut(self._construct, self.spec, times, where="ThermalNoise() independent")
        b = self.basis
        if len(b.freqs) == 0 or not np.any(b.amps != 0):
            return ["independent", "no-power"]
        if op.get("inject") or self.spec.get("inject"):
            return ["independent", "injected-draws"]
        a = np.array(obj.values, dtype=float)
        st, base = self.sut(lambda: np.array(
            self.views[0].obj.with_times(times + self.views[0].shift).values, dtype=float),
            where="with_times")
        if len(b.freqs) >= 2 and np.allclose(a, base, rtol=1e-9, atol=1e-12 * b.rms):
            raise Violation("C17:independent-objects-equal",
                            "two independently constructed noise objects have identical values")
        return ["independent", "differs"]

    def _op_bad_band(self, op):
        P = self.pyrex
        cls = P.signals.FFTThermalNoise if op["cls"] == "fft" else P.signals.FullThermalNoise
        self.count("fault.bad_band")
        self.nontrivial = True
        for band in ((3e8, 1e8), (2e8, 2e8)):
            st, res = self.sut(cls, self._grid(), band, rms_voltage=1.0, expect=(ValueError,),
                               where="bad band")
            if st != "raised":
                raise Violation("C17:bad-band-accepted", "band %r was accepted" % (band,))
        return ["bad_band"]

    def _op_no_rms(self, op):
        P = self.pyrex
        cls = P.signals.FFTThermalNoise if op["cls"] == "fft" else P.signals.FullThermalNoise
        self.count("fault.no_rms")
        self.nontrivial = True
        for kw in ({}, {"temperature": 300.0}, {"resistance": 50.0}):
            st, res = self.sut(cls, self._grid(), (1e8, 3e8), expect=(ValueError,),
                               where="no rms", **kw)
            if st != "raised":
                raise Violation("C17:no-rms-accepted", "noise without rms information was accepted")
        return ["no_rms"]

    def _op_file_basis(self, op):
        """Antenna noise master -> file on the simulated disk -> rebuilt noise."""
        P = self.pyrex
        dt = self.cfg["dt"]
        ant = P.Antenna(position=(0, 0, -100), noisy=True, freq_range=(0.1 / dt, 0.35 / dt),
                        noise_rms=1.0, unique_noise_waveforms=op["unique"])
        # antennas that never made any noise sit in front of / behind the noisy one
        silent = [P.Antenna(position=(0, 0, -120 - 10 * i), noisy=bool(i % 2), freq_range=(0.1 / dt, 0.35 / dt),
                            noise_rms=1.0) for i in range(op.get("silent_before", 0))]
        silent_after = [P.Antenna(position=(0, 0, -200), noisy=False)] if op.get("silent_after") else []
        detector = silent + [ant] + silent_after
        window = self._grid(op["k0"])
        st, first = self.sut(lambda: np.array(ant.make_noise(window).values, dtype=float),
                             where="make_noise")
        master = ant._noise_master
        master_times = np.array(master.times, dtype=float)
        self.file_counter += 1
        name = "sim://noise_%d.h5" % self.file_counter
        event = P.Event(P.Particle("nu_e", (0, 0, -500), (0, 0, 1), 1e9, interaction_type="cc"))

        def write():
            w = P.io.HDF5Writer(name, mode="w", write_particles=True, write_triggers=False,
                                write_rays=False, write_noise=True, write_waveforms=False,
                                require_trigger=False)
            w.open()
            w.set_detector(detector)
            w.add(event)
            w.close()
        self.sut(write, where="write noise basis")

        def read():
            r = P.io.HDF5Reader(name)
            r.open()
            out = None
            for ev in r:
                nb = ev.noise_bases
                for j in range(len(detector)):
                    if j != len(silent) and any(len(x) for x in nb[j]):
                        raise Violation("C17:file-basis", "an antenna that never made noise reads back with "
                                        "a noise basis (column %d)" % j)
                out = [np.array(x, dtype=float) for x in nb[len(silent)]]
            r.close()
            return out
        st, basis = self.sut(read, where="read noise basis")
        freqs, amps, phases = basis
        if not (np.array_equal(freqs, np.asarray(master.freqs, dtype=float)) and
                np.array_equal(amps, np.asarray(master.amps, dtype=float)) and
                np.array_equal(phases, np.asarray(master.phases, dtype=float))):
            raise Violation("C17:file-basis", "noise basis read from the file differs from the antenna's")
        rebuilt = P.signals.ThermalNoise(master_times, ant.freq_range, rms_voltage=1.0,
                                         uniqueness_factor=op["unique"])
        if len(rebuilt.freqs) != len(freqs) or np.any(np.asarray(rebuilt.freqs) != freqs):
            raise Violation("C17:file-basis-freqs", "rebuilt noise has different frequencies")
        rebuilt.amps = amps
        rebuilt.phases = phases
        st, again = self.sut(lambda: np.array(rebuilt.with_times(window).values, dtype=float),
                             where="rebuilt.with_times")
        self.count("probe.file_basis_compared")
        self.nontrivial = True
        if np.any(np.abs(again - first) > 1e-9):
            raise Violation("C17:file-basis-values",
                            "noise rebuilt from the stored basis differs from the antenna's noise "
                            "(max |diff| %.3g)" % float(np.max(np.abs(again - first))))
        return ["file_basis", len(freqs)]

    def finish(self):
        out = []
        for v in self.views:
            out.append(self._check_view(v, "final read"))
        return out


class C17Ensemble(Machine):
    """Default Rayleigh amplitudes give the requested RMS on average."""
    prop_id = "C17"
    name = "noise_ensemble"
    level = "exploration"
    budget = {"quick": 48, "thorough": 1600}
    max_steps = 1
    rule = ("each run draws 400 seeded default-amplitude noise objects of one configuration and compares "
            "the ensemble mean square with rms^2 at 6 sigma; non-trivial = always (random-stream dependent)")
    components = {"real": ["FFTThermalNoise", "FullThermalNoise", "numpy.random via PRNG seam"], "stub": []}
    assumptions = ["two-sided 6-sigma bound on fixed seeds: detects wrong normalisation, not per-mille bias"]
    required_counters = ()

    def draw_config(self, rng):
        return {"n_steps": 1, "cls": rng.pick(["fft", "full"]), "n": rng.pick([32, 64, 100]),
                "dt": 1e-9, "unique": rng.pick([1, 2]), "rms": rng.pick([1.0, 3e-5])}

    def setup(self, cfg):
        import pyrex
        self.pyrex = pyrex
        self.cfg = cfg

    def draw_op(self, rng):
        return {"op": "ensemble", "count": 400}

    def apply(self, op):
        P = self.pyrex
        cfg = self.cfg
        cls = P.signals.FFTThermalNoise if cfg["cls"] == "fft" else P.signals.FullThermalNoise
        times = cfg["dt"] * np.arange(cfg["n"])
        nyq = 0.5 / cfg["dt"]
        band = (0.2 * nyq, 0.7 * nyq)
        ms = []
        nf = None
        for _ in range(op["count"]):
            st, obj = self.sut(cls, times, band, rms_voltage=cfg["rms"],
                               uniqueness_factor=cfg["unique"], where="ThermalNoise()")
            nf = len(obj.freqs)
            st, v = self.sut(lambda: np.array(obj.values, dtype=float), where="read")
            ms.append(float(np.mean(v ** 2)) / cfg["rms"] ** 2)
        self.nontrivial = True
        ms = np.array(ms)
        mean = float(ms.mean())
        # z-test with the sample's own spread (the window is not always a full period)
        sigma = float(ms.std(ddof=1)) / math.sqrt(len(ms))
        if abs(mean - 1.0) > 6 * sigma + 1e-12:
            raise Violation("C17:default-amplitude-rms",
                            "mean square / rms^2 = %r over %d objects (%d frequencies), expected 1 +- %.3g"
                            % (mean, len(ms), nf, 6 * sigma))
        return ["ensemble", round(mean, 6)]


MACHINES = [C17Noise, C17Ensemble]
