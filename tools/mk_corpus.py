#!/venv/bin/python
"""Writes the hand-minimised regression corpus (one replay per repaired defect).

Each entry is an explicit config + op list in the machine's own op language.
Every check replays its corpus first; on the repaired tree all entries pass.
"""
import json, os, sys
HERE = os.path.dirname(os.path.abspath(__file__))
VERIF = os.path.dirname(HERE)

def rec(prop, machine, config, ops):
    for i, o in enumerate(ops):
        o.setdefault("rs", 1000 + i)
    config.setdefault("rs", 7)
    return {"property": prop, "machine": machine, "verif_seed": 0, "run_index": -1,
            "run_seed": 1, "config": config, "ops": ops}

C04CFG = {"n_steps": 10, "scale": 1e-9, "grids": [{"t0": 0.0, "dt": 1e-9, "n": 8}],
          "weights": {}}
GRID8 = [i * 1e-9 for i in range(8)]
C06CFG = {"n_steps": 10, "n": 32, "dt": 1e-9, "t0": 0.0, "read_prob": 0.5, "weights": {},
          "kinds": ["plain"]}
GAUSS = {"f": "gauss", "c": 1.2e-8, "w": 3e-9}

def strd(cls, x, n=2):
    return {"cls": cls, "x": x, "y": 0.0, "n": n}

CORPUS = {
 "C04": {
  "with_times_aliases_caller_buffer": rec("C04", "signals", dict(C04CFG), [
      {"op": "construct", "slot": 0, "kind": "function", "fn": {"f": "cos", "w": 1e8, "ph": 0.0},
       "times": GRID8, "vtype": 1},
      {"op": "buf", "b": 3, "data": [2e-9, 3e-9, 4e-9], "as": "ndarray", "int": False},
      {"op": "with_times", "a": 0, "buf": 3, "dst": 1},
      {"op": "shift", "a": 1, "dt": 1e-8}]),
  "function_signal_single_sample": rec("C04", "signals", dict(C04CFG), [
      {"op": "construct", "slot": 0, "kind": "function", "fn": {"f": "cos", "w": 1e8, "ph": 0.0},
       "times": [3e-9], "vtype": 1}]),
 },
 "C06": {
  "set_buffers_after_read": rec("C06", "lazy_signals", dict(C06CFG), [
      {"op": "new", "kind": "plain", "fn": GAUSS},
      {"op": "filter", "i": 0, "resp": {"h": "lp", "fc": 1e8}, "force_real": True},
      {"op": "read", "i": 0, "what": "values"},
      {"op": "set_buffers", "i": 0, "leading": 5e-9, "trailing": None, "force": False},
      {"op": "read", "i": 0, "what": "values"}]),
  "max_reflections_uniform": rec("C06", "lazy_tracers",
      {"n_steps": 5, "tracer": "uniform", "read_prob": 0.5}, [
      {"op": "new", "from_point": [0.0, 0.0, -300.0], "to_point": [100.0, 0.0, -100.0],
       "ice": {"ice": "uniform", "index": 1.5, "range": [-800, 0], "above": 1, "below": 2.0}},
      {"op": "read"},
      {"op": "set", "attr": "max_reflections", "value": 2},
      {"op": "read"}]),
  "max_reflections_layered": rec("C06", "lazy_tracers",
      {"n_steps": 5, "tracer": "layered", "read_prob": 0.5}, [
      {"op": "new", "from_point": [0.0, 0.0, -300.0], "to_point": [100.0, 0.0, -50.0],
       "ice": {"ice": "layered", "above": 1, "below": 2.5, "layers": [
           {"ice": "uniform", "index": 1.35, "range": [-100, 0]},
           {"ice": "uniform", "index": 1.78, "range": [-900, -100]}]}},
      {"op": "read"},
      {"op": "set", "attr": "max_reflections", "value": 0},
      {"op": "read"}]),
 },
 "C17": {
  "fft_noise_period": rec("C17", "noise", {"n_steps": 3, "n": 16, "dt": 1e-9, "t0": 0.0, "buggify": False}, [
      {"op": "new", "cls": "fft", "band": [1e8, 3.5e8], "band_kind": "inside", "amp": 1.0,
       "unique": 1, "rms": 1.0, "T": 250.0, "R": 75.0},
      {"op": "with_times", "v": 0, "k0": 8, "m": 16, "frac": 0.0},
      {"op": "read", "v": 0}]),
 },
 "C19": {
  "rejected_iadd_keeps_antenna": rec("C19", "detector", {"n_steps": 5, "noisy": False, "depth": 1}, [
      {"op": "make", "slot": 0, "spec": strd("StrPlain", 0.0), "kw": {}},
      {"op": "make", "slot": 1, "spec": strd("StrPlain", 5.0), "kw": {}},
      {"op": "add", "a": 0, "b": 1, "other": "slot", "dst": 2},
      {"op": "bad_iadd", "a": 2, "other": "antenna", "n": 1, "bad": 0}]),
  "build_kwargs_default_string_in_mixed_group": rec("C19", "detector",
      {"n_steps": 5, "noisy": False, "depth": 2}, [
      {"op": "make", "slot": 0, "kw": {"threshold": 0.2},
       "spec": {"cls": "Group", "children": [strd("StrPlain", 0.0), strd("StrA", 5.0)]}}]),
  "build_kwargs_nested_mixed_group": rec("C19", "detector",
      {"n_steps": 5, "noisy": False, "depth": 3}, [
      {"op": "make", "slot": 0, "kw": {"tag": "b"},
       "spec": {"cls": "Group", "children": [
           {"cls": "Group", "children": [strd("StrB", 0.0), strd("StrA", 5.0)]},
           strd("StrB", 9.0)]}}]),
  "trigger_kwargs_nested_combined": rec("C19", "detector", {"n_steps": 12, "noisy": False, "depth": 1}, [
      {"op": "make", "slot": 0, "spec": strd("StrA", 1.0), "kw": {}},
      {"op": "make", "slot": 1, "spec": strd("StrA", 2.0), "kw": {}},
      {"op": "add", "a": 0, "b": 1, "other": "slot", "dst": 2},
      {"op": "make", "slot": 3, "spec": strd("StrPlain", 5.0), "kw": {}},
      {"op": "add", "a": 3, "b": 2, "other": "slot", "dst": 4},
      {"op": "make", "slot": 0, "spec": strd("StrB", 3.0), "kw": {}},
      {"op": "make", "slot": 1, "spec": strd("StrB", 4.0), "kw": {}},
      {"op": "add", "a": 0, "b": 1, "other": "slot", "dst": 5},
      {"op": "make", "slot": 3, "spec": strd("StrPlain", 6.0), "kw": {}},
      {"op": "add", "a": 3, "b": 5, "other": "slot", "dst": 0},
      {"op": "add", "a": 4, "b": 0, "other": "slot", "dst": 1},
      {"op": "triggered", "a": 1, "mc": False, "kw": {"min_hits": 1}}]),
 },
}

sys.path.insert(0, HERE)
try:
    from corpus_more import MORE   # entries for the other properties
    for k, v in MORE.items():
        CORPUS.setdefault(k, {}).update(v(rec))
except ImportError:
    pass

for prop, entries in CORPUS.items():
    d = os.path.join(VERIF, "corpus", prop)
    os.makedirs(d, exist_ok=True)
    for name, r in entries.items():
        with open(os.path.join(d, name + ".json"), "w") as f:
            json.dump(r, f, indent=1, sort_keys=True)
        print("wrote", prop, name)
