#!/venv/bin/python
"""Confirm and evaluate changes produced by independent sub-agents.

  tools/eval_seeded.py <agent-worktree> <prop> [--scale 1.0] [--keep-all]

For every <agent-worktree>/mutants/<name>/{patch.diff, demo.py, notes.md}:
  1. scratch copy of /repo's pyrex + tests (outside /repo and /verif);
  2. demo.py (paths rewritten to the scratch copy) must PASS on the clean copy;
  3. patch applied; the repository's whole test suite must still PASS;
  4. demo.py must FAIL with the patch;
  5. the property's quick check runs with VERIF_REPO=<scratch>: exit 1 = caught.
Confirmed changes (2-4 hold) are stored as /verif/seeded/<prop>-<name>/ with
patch.diff, demo.py and meta.json (what it breaks, what it needs, what was run,
whether the check caught it).  The scratch copy is removed.
"""
import json
import os
import shutil
import subprocess
import sys
import time

HERE = os.path.dirname(os.path.abspath(__file__))
VERIF = os.path.dirname(HERE)
sys.path.insert(0, HERE)
import mutants  # noqa: E402


def run(cmd, cwd=None, env=None, timeout=1800):
    p = subprocess.run(cmd, cwd=cwd, env=env, capture_output=True, text=True, timeout=timeout)
    return p.returncode, p.stdout, p.stderr


def rebuild_from_seeded(prop):
    """Recreate an agent-style <dir>/mutants/<name>/ tree from /verif/seeded for re-evaluation."""
    import tempfile
    root = tempfile.mkdtemp(prefix="seeded_src_%s_" % prop, dir="/tmp")
    for d in sorted(os.listdir(os.path.join(VERIF, "seeded"))):
        if not d.startswith(prop + "-"):
            continue
        src = os.path.join(VERIF, "seeded", d)
        meta = json.load(open(os.path.join(src, "meta.json")))
        tag = meta.get("round", "r1")
        dest = os.path.join(root, tag, "mutants", meta["name"])
        os.makedirs(dest)
        shutil.copy(os.path.join(src, "patch.diff"), dest)
        open(os.path.join(dest, "demo.py"), "w").write(
            open(os.path.join(src, "demo.py")).read().replace("/repo", os.path.join(root, tag)))
        open(os.path.join(dest, "notes.md"), "w").write(meta.get("needs", ""))
    return root


def main():
    if sys.argv[1] == "--from-seeded":
        prop = sys.argv[2]
        skip = "--skip-suite" in sys.argv
        root = rebuild_from_seeded(prop)
        try:
            for tag in sorted(os.listdir(root)):
                argv = [sys.argv[0], os.path.join(root, tag), prop] + ([] if tag == "r1" else ["--tag", tag])
                if skip:
                    argv.append("--skip-suite")
                sys.argv = argv
                main()
        finally:
            shutil.rmtree(root, ignore_errors=True)
        return
    wt = sys.argv[1].rstrip("/")
    prop = sys.argv[2]
    scale = float(sys.argv[sys.argv.index("--scale") + 1]) if "--scale" in sys.argv else 1.0
    tag = sys.argv[sys.argv.index("--tag") + 1] if "--tag" in sys.argv else ""
    mdir = os.path.join(wt, "mutants")
    rows = []
    ev = os.path.join(VERIF, "evidence", prop + ".json")
    ev_backup = open(ev).read() if os.path.exists(ev) else None
    for name in sorted(os.listdir(mdir)):
        d = os.path.join(mdir, name)
        patch = os.path.join(d, "patch.diff")
        demo = os.path.join(d, "demo.py")
        if not (os.path.isfile(patch) and os.path.isfile(demo)):
            continue
        scratch = mutants.make_scratch("seeded_%s_%s" % (prop, name[:20]))
        meta = {"property": prop, "name": name, "source": "independent sub-agent (given only the property "
                "text and its own worktree)", "ran": []}
        try:
            demo_src = open(demo).read().replace(wt, scratch)
            demo_path = os.path.join(scratch, "demo_seeded.py")
            open(demo_path, "w").write(demo_src)
            c0, o0, e0 = run(["/venv/bin/python", demo_path], cwd=scratch, timeout=900)
            meta["demo_passes_without_change"] = (c0 == 0)
            meta["ran"].append("demo.py on clean copy -> exit %d" % c0)
            ca, oa, ea = run(["patch", "-p1", "-i", patch], cwd=scratch)
            meta["patch_applies"] = (ca == 0)
            if ca != 0:
                meta["ran"].append("patch failed: " + (oa + ea)[-300:])
                rows.append(meta)
                continue
            if "--skip-suite" in sys.argv:
                ok_tests = True
                meta["ran"].append("pytest tests (whole suite) with change -> passed when the change was "
                                   "first confirmed (not repeated in this re-evaluation)")
            else:
                ok_tests, tail = mutants.run_tests(scratch)
                meta["ran"].append("pytest tests (whole suite) with change -> %s" % tail)
            meta["tests_pass_with_change"] = ok_tests
            c1, o1, e1 = run(["/venv/bin/python", demo_path], cwd=scratch, timeout=900)
            meta["demo_fails_with_change"] = (c1 != 0)
            meta["ran"].append("demo.py with change -> exit %d: %s" % (c1, (e1 or o1).strip().splitlines()[-1:] ))
            confirmed = bool(meta["demo_passes_without_change"] and ok_tests and meta["demo_fails_with_change"])
            meta["confirmed"] = confirmed
            t0 = time.time()
            code, out, wall = mutants.run_check(scratch, prop, "quick", scale)
            cls = [l.strip() for l in out.splitlines() if l.strip().startswith("class=")]
            meta["check_exit"] = code
            meta["check_caught"] = (code == 1)
            meta["check_classes"] = cls[:3]
            meta["ran"].append("VERIF_REPO=<scratch> run_check.py --property %s --tier quick (scale %s) -> "
                               "exit %d in %.0fs" % (prop, scale, code, wall))
            notes = os.path.join(d, "notes.md")
            meta["needs"] = open(notes).read().strip() if os.path.exists(notes) else ""
            rows.append(meta)
            print("%-10s %-40s confirmed=%s caught=%s %s" % (prop, name, confirmed, code == 1,
                                                             (cls[0][:80] if cls else "")))
            sys.stdout.flush()
            if confirmed or "--keep-all" in sys.argv:
                meta["round"] = tag or "r1"
                dest = os.path.join(VERIF, "seeded", "%s-%s%s" % (prop, (tag + "-") if tag else "", name))
                os.makedirs(dest, exist_ok=True)
                shutil.copy(patch, os.path.join(dest, "patch.diff"))
                open(os.path.join(dest, "demo.py"), "w").write(open(demo).read().replace(wt, "/repo"))
                json.dump(meta, open(os.path.join(dest, "meta.json"), "w"), indent=1)
        finally:
            shutil.rmtree(scratch, ignore_errors=True)
    if ev_backup is not None:
        open(ev, "w").write(ev_backup)
    n_conf = sum(1 for r in rows if r.get("confirmed"))
    n_caught = sum(1 for r in rows if r.get("confirmed") and r.get("check_caught"))
    print("SEEDED %s: %d delivered, %d confirmed, %d caught" % (prop, len(rows), n_conf, n_caught))


if __name__ == "__main__":
    main()
