#!/bin/bash
# tools/sweep.sh <tier> "<seeds>" [scale] [props...]   - runs the registered checks for several VERIF_SEED values.
# Meant for `vp run`: results are exploration only (evidence that is committed always comes from a run
# in /verif itself).  Prints one SUMMARY line and the exit code per (seed, property); exit 1 if any run
# did not exit 0.
tier=${1:-quick}; seeds=${2:-"1 2 3"}; scale=${3:-1.0}; shift 3 2>/dev/null
props=${@:-C04 C06 C09 C10 C11 C12 C13 C14 C17 C19}
bad=0
for s in $seeds; do
  for p in $props; do
    out=$(VERIF_SEED=$s VERIF_RUNS_SCALE=$scale /venv/bin/python run_check.py --property $p --tier $tier 2>&1)
    code=$?
    echo "seed=$s $p exit=$code $(echo "$out" | grep SUMMARY)"
    if [ $code -ne 0 ]; then bad=1; echo "$out" | tail -15; fi
  done
done
exit $bad
