#!/venv/bin/python
"""Sensitivity / no-false-alarm self-test of the checks.

Applies each catalogue entry (a realistic one-spot change to pyrex, or the
reverse of a ``fix:`` commit, or a semantics-preserving edit) to a scratch
copy of /repo's ``pyrex`` + ``tests`` outside /repo and /verif, optionally
runs the repository's own suite on it, runs the property's check with
``VERIF_REPO=<scratch>`` and compares the exit code with the expectation
(1 for breaking mutants, 0 for semantics-preserving ones).  The scratch copy
is removed afterwards.

  tools/mutants.py [--only ID[,ID]] [--prop C04] [--with-tests] [--scale 1.0] [--tier quick]
"""
import argparse
import json
import os
import shutil
import subprocess
import sys
import tempfile
import time

HERE = os.path.dirname(os.path.abspath(__file__))
VERIF = os.path.dirname(HERE)
sys.path.insert(0, HERE)
from mutant_catalogue import CATALOGUE  # noqa: E402


def make_scratch(tag):
    d = tempfile.mkdtemp(prefix="pyrex_mut_%s_" % tag, dir="/tmp")
    shutil.copytree("/repo/pyrex", os.path.join(d, "pyrex"),
                    ignore=shutil.ignore_patterns("__pycache__"))
    shutil.copytree("/repo/tests", os.path.join(d, "tests"), symlinks=True,
                    ignore=shutil.ignore_patterns("__pycache__", "*.ipynb"))
    for f in ("setup.cfg", "setup.py", "README.rst"):
        if os.path.exists(os.path.join("/repo", f)):
            shutil.copy(os.path.join("/repo", f), d)
    return d


def apply_edits(scratch, edits):
    for e in edits:
        path = os.path.join(scratch, e["file"])
        with open(path) as f:
            s = f.read()
        n = s.count(e["old"])
        want = e.get("count", 1)
        if n != want:
            raise RuntimeError("%s: pattern occurs %d times (want %d): %r"
                               % (e["file"], n, want, e["old"][:60]))
        s = s.replace(e["old"], e["new"])
        with open(path, "w") as f:
            f.write(s)


def run_tests(scratch):
    p = subprocess.run(
        ["/venv/bin/python", "-m", "pytest", "-q", "-x", "-p", "no:cacheprovider",
         "--timeout=900", "tests"], cwd=scratch, capture_output=True, text=True)
    tail = (p.stdout.strip().splitlines() or [""])[-1]
    return p.returncode == 0, tail


def run_check(scratch, prop, tier, scale):
    env = dict(os.environ, VERIF_REPO=scratch, VERIF_RUNS_SCALE=str(scale))
    t0 = time.time()
    p = subprocess.run(["/venv/bin/python", os.path.join(VERIF, "run_check.py"),
                        "--property", prop, "--tier", tier],
                       cwd=VERIF, env=env, capture_output=True, text=True)
    return p.returncode, p.stdout, time.time() - t0


def main():
    ap = argparse.ArgumentParser()
    ap.add_argument("--only")
    ap.add_argument("--prop")
    ap.add_argument("--with-tests", action="store_true")
    ap.add_argument("--scale", type=float, default=1.0)
    ap.add_argument("--tier", default="quick")
    ap.add_argument("--json")
    args = ap.parse_args()
    only = set(args.only.split(",")) if args.only else None
    rows = []
    # keep the evidence of the real tree: mutant runs must not overwrite it
    ev_dir = os.path.join(VERIF, "evidence")
    backup = tempfile.mkdtemp(prefix="pyrex_ev_backup_", dir="/tmp")
    for f in os.listdir(ev_dir) if os.path.isdir(ev_dir) else []:
        shutil.copy(os.path.join(ev_dir, f), backup)
    try:
        for m in CATALOGUE:
            if only and m["id"] not in only:
                continue
            if args.prop and args.prop not in m["props"]:
                continue
            scratch = make_scratch(m["id"])
            try:
                apply_edits(scratch, m["edits"])
                tests_ok, tests_tail = (None, "")
                if args.with_tests:
                    tests_ok, tests_tail = run_tests(scratch)
                for prop in m["props"]:
                    if args.prop and prop != args.prop:
                        continue
                    code, out, wall = run_check(scratch, prop, args.tier, args.scale)
                    want = m.get("expect", 1)
                    cls = [l.strip() for l in out.splitlines() if l.strip().startswith("class=")]
                    ok = (code == want)
                    rows.append({"id": m["id"], "prop": prop, "expect": want, "exit": code,
                                 "ok": ok, "tests_pass": tests_ok, "wall": round(wall, 1),
                                 "classes": cls[:3], "note": m.get("note", "")})
                    print("%-28s %s expect=%d exit=%d %s tests=%s %.0fs %s" % (
                        m["id"], prop, want, code, "OK  " if ok else "MISS", tests_ok, wall,
                        (cls[0][:90] if cls else "")))
                    if not ok:
                        print("\n".join("    | " + l for l in out.strip().splitlines()[-6:]))
                    sys.stdout.flush()
            finally:
                shutil.rmtree(scratch, ignore_errors=True)
    finally:
        for f in os.listdir(backup):
            shutil.copy(os.path.join(backup, f), ev_dir)
        shutil.rmtree(backup, ignore_errors=True)
    bad = [r for r in rows if not r["ok"]]
    print("MUTANTS total=%d ok=%d missed=%d" % (len(rows), len(rows) - len(bad), len(bad)))
    if args.json:
        with open(args.json, "w") as f:
            json.dump(rows, f, indent=1)
    return 1 if bad else 0


if __name__ == "__main__":
    sys.exit(main())
