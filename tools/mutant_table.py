#!/venv/bin/python
"""Markdown table of the sensitivity results (tools/mutants.py --json ...)."""
import json, sys
rows = json.load(open(sys.argv[1]))
print("| change (tools/mutant_catalogue.py id) | property | expected | check exit | caught by (violation class) |")
print("|---|---|---|---|---|")
for r in rows:
    cls = r["classes"][0].split(" machine=")[0].replace("class=", "") if r["classes"] else ""
    print("| %s | %s | %s | %d | %s |" % (r["id"], r["prop"], "violation" if r["expect"] == 1 else "quiet",
                                         r["exit"], cls if r["expect"] == 1 else "-"))
ok = sum(1 for r in rows if r["ok"])
print("\n%d of %d behave as expected." % (ok, len(rows)))
