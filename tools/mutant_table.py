#!/venv/bin/python
"""Markdown table of the sensitivity results (tools/mutants.py --json ...)."""
import json, sys
rows = json.load(open(sys.argv[1]))
print("| change (tools/mutant_catalogue.py id) | property | repository's suite | expected | check exit | caught by (violation class) |")
print("|---|---|---|---|---|---|")
for r in rows:
    cls = r["classes"][0].split(" machine=")[0].replace("class=", "") if r["classes"] else ""
    tests = {True: "passes", False: "fails", None: "not run"}[r.get("tests_pass")]
    print("| %s | %s | %s | %s | %d | %s |" % (r["id"], r["prop"], tests, "violation" if r["expect"] == 1 else "quiet",
                                              r["exit"], cls if r["expect"] == 1 else "-"))
ok = sum(1 for r in rows if r["ok"])
surv = sum(1 for r in rows if r.get("tests_pass"))
print("\n%d of %d behave as expected; %d of them also pass the repository's own test suite "
      "(the others are caught by it as well)." % (ok, len(rows), surv))
