#!/venv/bin/python
"""tools/seeded_scratch.py <seeded-dir-name>  -> prints a scratch copy of /repo's pyrex+tests
(outside /repo and /verif) with that seeded patch applied.  Remove it when done."""
import os, subprocess, sys
HERE = os.path.dirname(os.path.abspath(__file__))
sys.path.insert(0, HERE)
import mutants
name = sys.argv[1]
d = mutants.make_scratch("dbg_" + name[:24])
patch = os.path.join(os.path.dirname(HERE), "seeded", name, "patch.diff")
p = subprocess.run(["patch", "-p1", "-i", patch], cwd=d, capture_output=True, text=True)
if p.returncode:
    sys.exit("patch failed: " + p.stdout + p.stderr)
print(d)
