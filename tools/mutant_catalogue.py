"""Catalogue of deliberate changes used by tools/mutants.py.

expect=1 (default): the change breaks the named property, the check must
report a VIOLATION.  expect=0: semantics-preserving edit, the check must stay
quiet.  'revert-*' entries are the reverse of a ``fix:`` commit in /repo.
"""

S = "pyrex/signals.py"

CATALOGUE = [
    # ------------------------------------------------------------- C04
    {"id": "revert-with_times-copy", "props": ["C04"],
     "edits": [{"file": S, "old": "new_signal.times = np.array(new_times)",
                "new": "new_signal.times = new_times"}]},
    {"id": "revert-single-sample", "props": ["C04"],
     "edits": [{"file": S, "old": "        if self.dt is None:\n            return self.times\n",
                "new": ""},
               {"file": S, "old": "        if self.dt is None:\n            return slice(0, len(self.times))\n",
                "new": ""}]},
    {"id": "c04-init-times-alias", "props": ["C04"],
     "edits": [{"file": S, "old": "    def __init__(self, times, values, value_type=None):\n        self.times = np.array(times)",
                "new": "    def __init__(self, times, values, value_type=None):\n        self.times = np.asarray(times)"}]},
    {"id": "c04-init-values-alias", "props": ["C04"],
     "edits": [{"file": S, "old": "self.values = np.array(values[:len(times)])",
                "new": "self.values = np.asarray(values[:len(times)])"}]},
    {"id": "c04-empty-add-returns-other", "props": ["C04"],
     "edits": [{"file": S, "old": "        new_signal = other.copy()\n        new_signal.value_type = value_type\n        return new_signal",
                "new": "        new_signal = other if other.value_type==value_type else other.copy()\n        new_signal.value_type = value_type\n        return new_signal"}]},
    {"id": "c04-with_times-extrapolate", "props": ["C04"],
     "edits": [{"file": S, "old": "        new_values = np.interp(new_times, self.times, self.values,\n                               left=0, right=0)",
                "new": "        new_values = np.interp(new_times, self.times, self.values)"}]},
    {"id": "c04-add-type-coercion", "props": ["C04"],
     "edits": [{"file": S, "old": "        if self.value_type==self.Type.undefined:\n            value_type = other.value_type\n        else:\n            value_type = self.value_type\n\n        return Signal(self.times, self.values+other.values,\n                      value_type=value_type)",
                "new": "        value_type = self.value_type\n\n        return Signal(self.times, self.values+other.values,\n                      value_type=value_type)"}]},
    {"id": "c04-function-shift-t0", "props": ["C04"],
     "edits": [{"file": S, "old": "        self.times += dt\n        self._t0s = [t+dt for t in self._t0s]",
                "new": "        self.times += dt"}]},
    {"id": "c04-function-add-empty-alias", "props": ["C04"],
     "edits": [{"file": S, "old": "            new_signal = self.copy()\n            new_signal.value_type = value_type\n            return new_signal\n        else:\n            return Signal(self.times, self.values+other.values,",
                "new": "            new_signal = self if self.value_type==value_type else self.copy()\n            new_signal.value_type = value_type\n            return new_signal\n        else:\n            return Signal(self.times, self.values+other.values,"}]},
    {"id": "c04-empty-with_times-keeps-grid", "props": ["C04"],
     "edits": [{"file": S, "old": "        return EmptySignal(new_times, value_type=self.value_type)",
                "new": "        return EmptySignal(new_times if len(new_times)!=3 else self.times, value_type=self.value_type)"}]},
    {"id": "c04-function-rmul-drops-components", "props": ["C04"],
     "edits": [{"file": S, "old": "            factors = [other * f for f in self._factors]",
                "new": "            factors = [other * f for f in self._factors[:2]]+self._factors[2:]"}]},
    {"id": "c04-ok-copy-via-constructor", "props": ["C04"], "expect": 0,
     "note": "semantics-preserving: copy through np.copy",
     "edits": [{"file": S, "old": "        return Signal(self.times, self.values, self.value_type)",
                "new": "        return Signal(np.copy(self.times), np.copy(self.values), self.value_type)"}]},
    {"id": "c04-ok-extra-draw", "props": ["C04"], "expect": 0,
     "note": "semantics-preserving: one extra harmless random draw in GaussianNoise",
     "edits": [{"file": S, "old": "        self.sigma = sigma\n",
                "new": "        self.sigma = sigma\n        np.random.rand()\n"}]},
]
