"""Catalogue of deliberate changes used by tools/mutants.py.

expect=1 (default): the change breaks the named property, the check must
report a VIOLATION.  expect=0: semantics-preserving edit, the check must stay
quiet.  'revert-*' entries are the reverse of a ``fix:`` commit in /repo.
"""

S = "pyrex/signals.py"

CATALOGUE = [
    # ------------------------------------------------------------- C04
    {"id": "revert-with_times-copy", "props": ["C04"],
     "edits": [{"file": S, "old": "new_signal.times = np.array(new_times)",
                "new": "new_signal.times = new_times"}]},
    {"id": "revert-single-sample", "props": ["C04"],
     "edits": [{"file": S, "old": "        if self.dt is None:\n            return self.times\n",
                "new": ""},
               {"file": S, "old": "        if self.dt is None:\n            return slice(0, len(self.times))\n",
                "new": ""}]},
    {"id": "c04-init-times-alias", "props": ["C04"],
     "edits": [{"file": S, "old": "    def __init__(self, times, values, value_type=None):\n        self.times = np.array(times)",
                "new": "    def __init__(self, times, values, value_type=None):\n        self.times = np.asarray(times)"}]},
    {"id": "c04-init-values-alias", "props": ["C04"],
     "edits": [{"file": S, "old": "self.values = np.array(values[:len(times)])",
                "new": "self.values = np.asarray(values[:len(times)])"}]},
    {"id": "c04-empty-add-returns-other", "props": ["C04"],
     "edits": [{"file": S, "old": "        new_signal = other.copy()\n        new_signal.value_type = value_type\n        return new_signal",
                "new": "        new_signal = other if other.value_type==value_type else other.copy()\n        new_signal.value_type = value_type\n        return new_signal"}]},
    {"id": "c04-with_times-extrapolate", "props": ["C04"],
     "edits": [{"file": S, "old": "        new_values = np.interp(new_times, self.times, self.values,\n                               left=0, right=0)",
                "new": "        new_values = np.interp(new_times, self.times, self.values)"}]},
    {"id": "c04-add-type-coercion", "props": ["C04"],
     "edits": [{"file": S, "old": "        if self.value_type==self.Type.undefined:\n            value_type = other.value_type\n        else:\n            value_type = self.value_type\n\n        return Signal(self.times, self.values+other.values,\n                      value_type=value_type)",
                "new": "        value_type = self.value_type\n\n        return Signal(self.times, self.values+other.values,\n                      value_type=value_type)"}]},
    {"id": "c04-function-shift-t0", "props": ["C04"],
     "edits": [{"file": S, "old": "        self.times += dt\n        self._t0s = [t+dt for t in self._t0s]",
                "new": "        self.times += dt"}]},
    {"id": "c04-function-add-empty-alias", "props": ["C04"],
     "edits": [{"file": S, "old": "            new_signal = self.copy()\n            new_signal.value_type = value_type\n            return new_signal\n        else:\n            return Signal(self.times, self.values+other.values,",
                "new": "            new_signal = self if self.value_type==value_type else self.copy()\n            new_signal.value_type = value_type\n            return new_signal\n        else:\n            return Signal(self.times, self.values+other.values,"}]},
    {"id": "c04-empty-with_times-keeps-grid", "props": ["C04"],
     "edits": [{"file": S, "old": "        return EmptySignal(new_times, value_type=self.value_type)",
                "new": "        return EmptySignal(new_times if len(new_times)!=3 else self.times, value_type=self.value_type)"}]},
    {"id": "c04-function-rmul-drops-components", "props": ["C04"],
     "edits": [{"file": S, "old": "            factors = [other * f for f in self._factors]",
                "new": "            factors = [other * f for f in self._factors[:2]]+self._factors[2:]"}]},
    {"id": "c04-ok-copy-via-constructor", "props": ["C04"], "expect": 0,
     "note": "semantics-preserving: copy through np.copy",
     "edits": [{"file": S, "old": "        return Signal(self.times, self.values, self.value_type)",
                "new": "        return Signal(np.copy(self.times), np.copy(self.values), self.value_type)"}]},
    {"id": "c04-ok-extra-draw", "props": ["C04"], "expect": 0,
     "note": "semantics-preserving: one extra harmless random draw in GaussianNoise",
     "edits": [{"file": S, "old": "        self.sigma = sigma\n",
                "new": "        self.sigma = sigma\n        np.random.rand()\n"}]},
]

R = "pyrex/ray_tracing.py"
L = "pyrex/custom/layered_ice/ray_tracing.py"
IF = "pyrex/internal_functions.py"

CATALOGUE += [
    # ------------------------------------------------------------- C06
    {"id": "revert-set_buffers-cache", "props": ["C06"],
     "edits": [{"file": S, "old": "        # Since the buffers are changed in place instead of setting\n        # self._buffers, need to manually enforce the cache clearing\n        self._clear_cache()\n",
                "new": ""}]},
    {"id": "revert-max_reflections-uniform", "props": ["C06"],
     "edits": [{"file": R, "old": "        self.max_reflections = self.max_reflections\n", "new": ""}]},
    {"id": "revert-max_reflections-layered", "props": ["C06"],
     "edits": [{"file": L, "old": "        self.max_reflections = self.max_reflections\n", "new": ""}]},
    {"id": "c06-filter-no-cache-clear", "props": ["C06"],
     "edits": [{"file": S, "old": "        # manually enforce the cache clearing\n        self._clear_cache()\n        for group in self._filters:",
                "new": "        # manually enforce the cache clearing\n        for group in self._filters:"}]},
    {"id": "c06-static-attrs-drop-factors", "props": ["C06"],
     "edits": [{"file": S, "old": "                                            '_buffers', '_factors', '_filters'])",
                "new": "                                            '_buffers', '_filters'])"}]},
    {"id": "c06-static-attrs-drop-t0s", "props": ["C06"], "expect": 0,
     "note": "equivalent mutant: _t0s is only ever assigned by shift(), which also assigns times",
     "edits": [{"file": S, "old": "        super().__init__(static_attributes=['times', '_functions', '_t0s',",
                "new": "        super().__init__(static_attributes=['times', '_functions',"}]},
    {"id": "c06-clear-cache-keeps-values", "props": ["C06"],
     "note": "cache clearing misses one lazy attribute name",
     "edits": [{"file": IF, "old": "                           if attr.startswith(\"_lazy_\")]",
                "new": "                           if attr.startswith(\"_lazy_\") and attr!=\"_lazy_rho\"]"}]},
    {"id": "c06-tracer-dz-not-static", "props": ["C06"],
     "edits": [{"file": R, "old": "        self.ice = ice_model\n        self.dz = dz\n        super().__init__()",
                "new": "        self.ice = ice_model\n        super().__init__()\n        self.dz = dz"}]},
    {"id": "c06-path-theta0-late", "props": ["C06"],
     "edits": [{"file": R, "old": "        self.theta0 = launch_angle\n        self.ice = parent_tracer.ice\n        self.dz = parent_tracer.dz\n        self.direct = direct\n        super().__init__()",
                "new": "        self.ice = parent_tracer.ice\n        self.dz = parent_tracer.dz\n        self.direct = direct\n        super().__init__()\n        self.theta0 = launch_angle"}]},
    {"id": "c06-with_times-buffers-on-self", "props": ["C06"],
     "note": "with_times sets the buffers on the original instead of the new signal",
     "edits": [{"file": S, "old": "            new_signal.set_buffers(leading=new_times[0]-self.times[0],",
                "new": "            self.set_buffers(leading=new_times[0]-self.times[0],"}]},
    {"id": "c06-copy-shares-buffers", "props": ["C06"],
     "note": "copy shares the mutable buffer lists; a later set_buffers on the copy changes the original",
     "edits": [{"file": S, "old": "        new_signal._buffers = copy.deepcopy(self._buffers)",
                "new": "        new_signal._buffers = list(self._buffers)"}]},
    {"id": "c06-ok-eager-recompute", "props": ["C06"], "expect": 0,
     "note": "semantics-preserving: clear cache on every shift explicitly",
     "edits": [{"file": S, "old": "        self.times += dt\n        self._t0s = [t+dt for t in self._t0s]",
                "new": "        self._clear_cache()\n        self.times = self.times + dt\n        self._t0s = [t+dt for t in self._t0s]"}]},
]
