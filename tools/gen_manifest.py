#!/venv/bin/python
"""Regenerates MANIFEST.json from the per-property registry (kept valid at all times)."""
import json, os, sys
HERE = os.path.dirname(os.path.abspath(__file__))
VERIF = os.path.dirname(HERE)
sys.path.insert(0, VERIF)
from manifest_data import CHECKS, NOT_APPLICABLE  # noqa

PY = "/venv/bin/python"
man = {
    "version": 1,
    "setup_cmd": PY + " -c \"import numpy, scipy, h5py; print('deps ok', numpy.__version__, scipy.__version__, h5py.__version__)\"",
    "hooks": {
        "guard": "PYREX_VERIF",
        "enable": "no source hooks: all seams are attribute patches (numpy.random functions, h5py.File, pyrex.io.datetime) installed by /verif/run_check.py before/after importing pyrex from /repo's working tree (VERIF_REPO overrides the tree), and collaborator objects passed through public arguments",
        "baseline_off_cmd": "cd /repo && /venv/bin/python -m pytest -ra -q -p no:cacheprovider --timeout=900 --continue-on-collection-errors",
        "source_commits": [],
        "add_only": True,
    },
    "engines": [{
        "name": "pyrex-detsim",
        "path": "/verif/sim",
        "serves_properties": [c["property_id"] for c in CHECKS],
        "kind_free_text": "own deterministic simulator: seeded op/fault-sequence generation per Machine, numpy.random / h5py.File / datetime seams, in-memory SimDisk, counting fault proxies, blake2b history digests, ddmin shrinker, explicit-op-list replay files, fork process pool",
    }],
    "checks": [],
    "notes": "See DESIGN.md. Exit 0 = held on everything explored; 1 = VIOLATION line with replay file; 2 = harness error (no verdict). VERIF_SEED / VERIF_TIER / VERIF_REPO honoured.",
    "not_applicable": NOT_APPLICABLE,
}
for c in CHECKS:
    pid = c["property_id"]
    man["checks"].append({
        "property_id": pid,
        "quick_cmd": "%s run_check.py --property %s --tier quick" % (PY, pid),
        "thorough_cmd": "%s run_check.py --property %s --tier thorough" % (PY, pid),
        "evidence_file": "/verif/evidence/%s.json" % pid,
        "replay_cmd_template": PY + " run_check.py --replay {path}",
        "engine": "pyrex-detsim",
        "level_claimed": {"category": c["category"], "text": c["text"], "design_ref": c["design_ref"]},
        "level_note": c["level_note"],
        "technique": c["technique"],
    })
with open(os.path.join(VERIF, "MANIFEST.json"), "w") as f:
    json.dump(man, f, indent=1)
print("wrote MANIFEST.json with %d checks, %d not applicable" % (len(man["checks"]), len(NOT_APPLICABLE)))
