"""Debug helper: execute one generated run and print its ops / outcome."""
import sys, os, json, faulthandler
sys.path.insert(0, os.path.dirname(os.path.dirname(os.path.abspath(__file__))))
import run_check
run_check.bootstrap()
from sim import engine
from sim.rng import DEFAULT_VERIF_SEED
prop, mname, idx = sys.argv[1], sys.argv[2], int(sys.argv[3])
m = run_check.find_machine(prop, mname)
rec = engine.new_record(m, int(os.environ.get("VERIF_SEED", DEFAULT_VERIF_SEED)), idx)
faulthandler.dump_traceback_later(int(os.environ.get("LIMIT", "20")), exit=True)
res = engine.execute(m, rec, generate=True)
print(json.dumps(rec["config"])[:600])
for o in rec["ops"]:
    print(json.dumps(o)[:300])
print(res["violation"], res["steps"], res["stats"])
