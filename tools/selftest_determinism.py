#!/venv/bin/python
"""Determinism self-test: for every machine of every claimed property run the
same seeds (a) sequentially and on the pool inside one interpreter
(run_check.py --selftest does that comparison itself) and (b) in a second,
fresh interpreter under another PYTHONHASHSEED and worker count; all run
digests must be identical.

  tools/selftest_determinism.py [--n 200] [--props C04,C06]
"""
import argparse, json, os, subprocess, sys
HERE = os.path.dirname(os.path.abspath(__file__))
VERIF = os.path.dirname(HERE)
sys.path.insert(0, VERIF)
import props

ap = argparse.ArgumentParser()
ap.add_argument("--n", type=int, default=200)
ap.add_argument("--props")
ap.add_argument("--json")
args = ap.parse_args()
todo = args.props.split(",") if args.props else sorted(props.MODULES)
report = {}
bad = 0
for p in todo:
    outs = []
    for hs, workers in (("0", "16"), ("4242", "5")):
        env = dict(os.environ, VERIF_HASHSEED=hs, VERIF_WORKERS=workers)
        r = subprocess.run(["/venv/bin/python", os.path.join(VERIF, "run_check.py"), "--selftest", p,
                            "--n", str(args.n)], capture_output=True, text=True, env=env, cwd=VERIF)
        dig = sorted(l for l in r.stdout.splitlines() if l.startswith("DIGEST"))
        summ = [l for l in r.stdout.splitlines() if l.startswith("SELFTEST")]
        outs.append((r.returncode, dig, summ))
    same = outs[0][1] == outs[1][1] and len(outs[0][1]) > 0
    inner_ok = outs[0][0] == 0 and outs[1][0] == 0
    report[p] = {"runs": len(outs[0][1]), "cross_interpreter_identical": same,
                 "in_process_vs_pool_identical": inner_ok}
    print(p, report[p])
    if not (same and inner_ok):
        bad += 1
if args.json:
    json.dump(report, open(args.json, "w"), indent=1)
sys.exit(1 if bad else 0)
