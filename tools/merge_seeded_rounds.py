#!/venv/bin/python
"""Adds the first-evaluation verdicts (notes/seeded_round<n>.log: the checks as
they were *before* the change was known) to seeded/*/meta.json and prints the
markdown table for DESIGN.md section 12."""
import json, os, re
HERE = os.path.dirname(os.path.abspath(__file__))
VERIF = os.path.dirname(HERE)
first = {}
ROUNDS = ("r1", "r2", "r3", "r4", "r5", "r6", "r7")
for rnd in ROUNDS:
    fn = "seeded_round%s.log" % rnd[1:]
    path = os.path.join(VERIF, "notes", fn)
    if not os.path.exists(path):
        continue
    for line in open(path):
        m = re.match(r"(C\d+)\s+(\S+)\s+confirmed=(\w+) caught=(\w+)", line)
        if m:
            first[(m.group(1), m.group(2), rnd)] = m.group(4) == "True"
rows = []
tot = {r: [0, 0, 0] for r in ROUNDS}
for d in sorted(os.listdir(os.path.join(VERIF, "seeded"))):
    mp = os.path.join(VERIF, "seeded", d, "meta.json")
    if not os.path.exists(mp):
        continue
    meta = json.load(open(mp))
    rnd = meta.get("round", "r1")
    key = (meta["property"], meta["name"], rnd)
    meta["caught_at_first_evaluation"] = first.get(key)
    meta["caught_now"] = meta.get("check_caught")
    meta.pop("caught_round1_before_strengthening", None)
    json.dump(meta, open(mp, "w"), indent=1)
    cls = (meta.get("check_classes") or [""])[0].split(" machine=")[0].replace("class=", "")
    tot[rnd][0] += 1
    tot[rnd][1] += bool(first.get(key))
    tot[rnd][2] += bool(meta.get("check_caught"))
    rows.append("| %s | %s | %s | %s | %s | %s |" % (meta["property"], rnd, meta["name"],
                "yes" if first.get(key) else "no", "yes" if meta.get("check_caught") else "NO", cls))
print("| property | round | change (seeded/) | caught at first evaluation | caught by the final checks | violation class |")
print("|---|---|---|---|---|---|")
print("\n".join(rows))
for rnd in ROUNDS:
    if not tot[rnd][0]:
        continue
    print("\nround %s: %d confirmed changes, %d caught at first evaluation, %d caught by the final checks."
          % (rnd, tot[rnd][0], tot[rnd][1], tot[rnd][2]))
