#!/venv/bin/python
"""Adds the round-1 verdicts (notes/seeded_round1.log) to seeded/*/meta.json and
prints the markdown table for DESIGN.md section 12."""
import json, os, re
HERE = os.path.dirname(os.path.abspath(__file__))
VERIF = os.path.dirname(HERE)
r1 = {}
for line in open(os.path.join(VERIF, "notes", "seeded_round1.log")):
    m = re.match(r"(C\d+)\s+(\S+)\s+confirmed=(\w+) caught=(\w+)", line)
    if m:
        r1[(m.group(1), m.group(2))] = m.group(4) == "True"
rows = []
for d in sorted(os.listdir(os.path.join(VERIF, "seeded"))):
    mp = os.path.join(VERIF, "seeded", d, "meta.json")
    if not os.path.exists(mp):
        continue
    meta = json.load(open(mp))
    key = (meta["property"], meta["name"])
    meta["caught_round1_before_strengthening"] = r1.get(key)
    meta["caught_now"] = meta.get("check_caught")
    json.dump(meta, open(mp, "w"), indent=1)
    cls = (meta.get("check_classes") or [""])[0].split(" machine=")[0].replace("class=", "")
    need = (meta.get("needs") or "").strip().splitlines()
    rows.append("| %s | %s | %s | %s | %s |" % (meta["property"], meta["name"],
                "yes" if r1.get(key) else "no", "yes" if meta.get("check_caught") else "NO", cls))
print("| property | change (seeded/<property>-<name>) | caught in round 1 | caught now | violation class |")
print("|---|---|---|---|---|")
print("\n".join(rows))
