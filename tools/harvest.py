#!/venv/bin/python
"""Harvest a minimised replay from a mutant run into the regression corpus.

  tools/harvest.py <mutant-id> <prop> <corpus-name> [--scale S]

Runs the property's check on the mutant (scratch copy), takes the first
reported replay, stores it as corpus/<prop>/<corpus-name>.json and confirms
that it passes on /repo itself.
"""
import json, os, re, shutil, subprocess, sys
HERE = os.path.dirname(os.path.abspath(__file__))
VERIF = os.path.dirname(HERE)
sys.path.insert(0, HERE)
import mutants
from mutant_catalogue import CATALOGUE

mid, prop, name = sys.argv[1:4]
scale = float(sys.argv[sys.argv.index("--scale") + 1]) if "--scale" in sys.argv else 1.0
m = [c for c in CATALOGUE if c["id"] == mid][0]
scratch = mutants.make_scratch(mid)
ev = os.path.join(VERIF, "evidence", prop + ".json")
bak = open(ev).read() if os.path.exists(ev) else None
try:
    mutants.apply_edits(scratch, m["edits"])
    code, out, wall = mutants.run_check(scratch, prop, "quick", scale)
    paths = re.findall(r"VIOLATION property=\S+ replay=(\S+)", out)
    if not paths:
        print(out[-2000:]); sys.exit("no violation on the mutant")
    rec = json.load(open(paths[0]))
    rec.pop("repo", None)
    rec["harvested_from_mutant"] = mid
    dest = os.path.join(VERIF, "corpus", prop, name + ".json")
    os.makedirs(os.path.dirname(dest), exist_ok=True)
    json.dump(rec, open(dest, "w"), indent=1, sort_keys=True)
    p = subprocess.run(["/venv/bin/python", os.path.join(VERIF, "run_check.py"), "--replay", dest],
                       capture_output=True, text=True)
    print(mid, "->", dest, "class", rec["violation"]["cls"], "ops", len(rec["ops"]),
          "| on /repo:", "PASS" if p.returncode == 0 else "FAILS (%d)" % p.returncode)
finally:
    shutil.rmtree(scratch, ignore_errors=True)
    if bak is not None:
        open(ev, "w").write(bak)
