"""Corpus entries of the I/O, kernel and generator properties (see mk_corpus.py)."""

def _ev(tag, rays, glob=True, extra=None, np_=1, ttype=None):
    trig = {"type": ttype or ("dict" if extra is not None else "bool"), "global": glob}
    if extra is not None:
        trig["extra"] = extra
    return {"tag": tag, "np": np_, "rays": rays, "trig": trig, "thrown": 1, "tree": "roots",
            "reset_noise": False}

OPTS_ALL = {"particles": True, "triggers": True, "antenna_triggers": False, "rays": True,
            "noise": False, "waveforms": True}

def _cfg(n_ant=2, opts=None, req=False, **kw):
    c = {"n_steps": 8, "n_ant": n_ant, "opts": dict(opts or OPTS_ALL), "require_trigger": req,
         "noisy": False, "fault_rate": 0.0, "checkpoint_rate": 0.0, "dict_triggers": True, "mode": "w"}
    c.update(kw)
    return c

def c11(rec):
    return {
     "rejected_add_last_leaves_phantom_event": rec("C11", "roundtrip", _cfg(), [
        {"op": "add", "spec": _ev(0, [1, 2])},
        {"op": "add", "spec": _ev(1, [1, 1]), "fault": {"kind": "arg", "how": "rays_short"}}]),
     "rejected_add_in_the_middle_shifts_rows": rec("C11", "roundtrip", _cfg(), [
        {"op": "add", "spec": _ev(0, [1, 2], np_=2)},
        {"op": "add", "spec": _ev(1, [2, 1], np_=3), "fault": {"kind": "arg", "how": "pols_mismatch"}},
        {"op": "add", "spec": _ev(2, [1, 1], np_=1)},
        {"op": "add", "spec": _ev(3, [3, 1], np_=2)}]),
     "antenna_trigger_column": rec("C11", "roundtrip",
        _cfg(opts=dict(OPTS_ALL, antenna_triggers=True, rays=False, waveforms=False),
             req=["antenna_triggers"]), [
        {"op": "add", "spec": _ev(0, [1, 1], glob=False, extra={"a": True, "b": False})},
        {"op": "add", "spec": dict(_ev(1, [1, 2], glob=True, extra={"a": False, "b": False}),
                                   amps={"0,0": 2.0, "1,0": 0.1, "1,1": 3.0})}]),
     "failed_add_creates_unindexed_table": rec("C11", "roundtrip",
        _cfg(n_ant=3, opts=dict(OPTS_ALL, rays=False, waveforms=False), req=True, dict_triggers=False), [
        {"op": "add", "spec": _ev(1, [1, 1, 1], glob=False)},
        {"op": "add", "spec": _ev(2, [1, 0, 1], glob=False),
         "fault": {"kind": "arg", "how": "trigger_list_short"}}]),
     "event_without_any_data_is_counted": rec("C11", "roundtrip",
        _cfg(opts=dict(OPTS_ALL, rays=False, waveforms=False, antenna_triggers=True),
             req=["particles", "triggers", "antenna_triggers", "rays"], dict_triggers=False), [
        {"op": "add", "spec": _ev(0, [1, 1], glob=False)}]),
     "collaborator_failure_in_last_add": rec("C11", "roundtrip", _cfg(), [
        {"op": "add", "spec": _ev(0, [1, 2])},
        {"op": "add", "spec": _ev(1, [2, 1]), "fault": {"kind": "collab", "k": 6}}]),
    }

MORE = {"C11": c11}
