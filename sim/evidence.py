"""Aggregation of run results and the evidence/<id>.json writer."""
import collections
import json
import os

HERE = os.path.dirname(os.path.dirname(os.path.abspath(__file__)))


class Aggregate:
    def __init__(self, prop, tier, seed):
        self.prop = prop
        self.tier = tier
        self.seed = seed
        self.evaluations = 0
        self.steps = 0
        self.digests = set()
        self.nontrivial_digests = set()
        self.stats = collections.defaultdict(collections.Counter)
        self.samples = []
        self.run_wall = 0.0
        self.max_run_wall = collections.defaultdict(float)
        self.per_machine_runs = collections.Counter()

    def add(self, r):
        self.evaluations += 1
        self.per_machine_runs[r["machine"]] += 1
        self.steps += r["steps"]
        self.run_wall += r["wall"]
        self.max_run_wall[r["machine"]] = max(self.max_run_wall[r["machine"]], r["wall"])
        key = (r["machine"], r["digest"])
        self.digests.add(key)
        if r["nontrivial"]:
            self.nontrivial_digests.add(key)
        for k, v in r["stats"].items():
            self.stats[r["machine"]][k] += v
        if "record" in r and len(self.samples) < 3 and r.get("violation") is None:
            rec = r["record"]
            self.samples.append({"machine": rec["machine"], "run_index": rec["run_index"],
                                 "config": rec["config"], "ops": rec["ops"][:25]})

    def stat(self, machine, key):
        return self.stats[machine].get(key, 0)

    def distinct_nontrivial(self):
        return len(self.nontrivial_digests)

    def to_evidence(self, machines, wall, corpus_run, determinism, violations,
                    violating_runs, extra, workers):
        level = machines[0].level
        ops = {}
        faults = {}
        draws = {}
        other = {}
        for mname, ctr in self.stats.items():
            for k, v in sorted(ctr.items()):
                if k.startswith("op."):
                    ops["%s:%s" % (mname, k[3:])] = v
                elif k.startswith("fault."):
                    faults["%s:%s" % (mname, k[6:])] = v
                elif k.startswith("draws."):
                    draws["%s:%s" % (mname, k[6:])] = v
                else:
                    other["%s:%s" % (mname, k)] = v
        rule = " | ".join("%s: %s" % (m.name, m.rule) for m in machines)
        cov = {
            "evaluations": self.evaluations,
            "distinct_nontrivial": self.distinct_nontrivial(),
            "rule": rule,
            "samples": self.samples or [{"note": "no fault-free sample recorded"}],
            "distinct_histories": len(self.digests),
            "total_ops": self.steps,
            "runs_per_machine": dict(self.per_machine_runs),
            "runs_per_hour": int(self.evaluations / wall * 3600) if wall > 0 else 0,
            "slowest_run_wall_s": {k: round(v, 3) for k, v in sorted(self.max_run_wall.items())},
            "ops_fired": ops,
            "fault_kinds_fired": faults,
            "prng_draws_by_function": draws,
            "probes": other,
            "corpus_replays": corpus_run,
            "determinism_selftest": determinism,
            "violating_runs": violating_runs,
            "workers": workers,
            "components": {m.name: m.components for m in machines},
            "exhaustive": False,
        }
        for ex in extra:
            cov.setdefault("extra_tiers", []).append(
                {k: v for k, v in ex.items() if k not in ("violations", "errors")})
        return {
            "property_id": self.prop,
            "tier": self.tier,
            "seed": self.seed,
            "level": level,
            "coverage": cov,
            "assumptions": sorted({a for m in machines for a in m.assumptions}),
            "wall_s": round(wall, 2),
            "violations": violations,
        }


def write(prop, ev):
    d = os.path.join(HERE, "evidence")
    os.makedirs(d, exist_ok=True)
    path = os.path.join(d, "%s.json" % prop)
    tmp = path + ".tmp"
    with open(tmp, "w") as f:
        json.dump(ev, f, indent=1, sort_keys=True, default=str)
    os.replace(tmp, path)
    return path
