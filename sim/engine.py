"""Run loop, history digests, replay, shrinking and the parallel batch runner.

One *run* = one seed = one exactly repeatable execution of one Machine:
the swarm configuration, every generated operation (with its own sub-seed for
the numpy.random seam and its explicit fault placement) and therefore every
draw pyrex makes.  The explicit op list is the replay file.
"""
import concurrent.futures
import faulthandler
import hashlib
import json
import math
import multiprocessing
import os
import signal
import sys
import time
import traceback

import numpy as np

from . import seams
from .rng import SimRandom, derive


class Violation(Exception):
    """The property's oracle failed."""

    def __init__(self, cls, msg, details=None):
        super().__init__("%s: %s" % (cls, msg))
        self.cls = cls
        self.msg = msg
        self.details = details


class Skip(Exception):
    """An op's precondition does not hold (only happens on edited replays)."""


class HarnessError(Exception):
    """Something went wrong inside /verif code: never a verdict."""


class RunTimeout(Exception):
    pass


# ---------------------------------------------------------------------------
# canonical digests
# ---------------------------------------------------------------------------

def canon(obj, h):
    """Feed a canonical encoding of obj into hash h."""
    if obj is None:
        h.update(b"N")
    elif isinstance(obj, (bool, np.bool_)):
        h.update(b"T" if obj else b"F")
    elif isinstance(obj, (int, np.integer)):
        h.update(b"i" + str(int(obj)).encode())
    elif isinstance(obj, (float, np.floating)):
        f = float(obj)
        h.update(b"f" + (b"nan" if f != f else f.hex().encode()))
    elif isinstance(obj, complex):
        h.update(b"c")
        canon(obj.real, h)
        canon(obj.imag, h)
    elif isinstance(obj, str):
        h.update(b"s" + obj.encode() + b"\0")
    elif isinstance(obj, bytes):
        h.update(b"b" + obj + b"\0")
    elif isinstance(obj, np.ndarray):
        a = np.ascontiguousarray(obj)
        h.update(b"a" + str(a.dtype).encode() + str(a.shape).encode())
        if a.dtype == object:
            for x in a.reshape(-1):
                canon(x, h)
        else:
            h.update(a.tobytes())
    elif isinstance(obj, (list, tuple)):
        h.update(b"[")
        for x in obj:
            canon(x, h)
        h.update(b"]")
    elif isinstance(obj, dict):
        h.update(b"{")
        for k in sorted(obj, key=str):
            canon(str(k), h)
            canon(obj[k], h)
        h.update(b"}")
    else:
        h.update(b"r" + repr(obj).encode())


def digest_of(obj):
    h = hashlib.blake2b(digest_size=12)
    canon(obj, h)
    return h.hexdigest()


def jsonable(obj):
    """Convert op/config payloads to plain JSON types."""
    if isinstance(obj, dict):
        return {str(k): jsonable(v) for k, v in obj.items()}
    if isinstance(obj, (list, tuple)):
        return [jsonable(v) for v in obj]
    if isinstance(obj, np.ndarray):
        return [jsonable(v) for v in obj.tolist()]
    if isinstance(obj, (np.bool_,)):
        return bool(obj)
    if isinstance(obj, np.integer):
        return int(obj)
    if isinstance(obj, np.floating):
        return float(obj)
    return obj


# ---------------------------------------------------------------------------
# Machine base class
# ---------------------------------------------------------------------------

class Machine:
    """Base class of the per-property simulation machines.

    Subclasses implement ``draw_config``, ``setup``, ``draw_op``, ``apply``
    and optionally ``finish``, ``simplify_op``, ``simplify_config``.
    ``self.stats`` is a free-form counter dict merged over the batch.
    """
    prop_id = "C00"
    name = "base"
    max_steps = 40

    def __init__(self):
        self.stats = {}
        self.np = seams.NPRANDOM
        self.nontrivial = False

    # -- bookkeeping helpers ----------------------------------------------
    def count(self, key, n=1):
        self.stats[key] = self.stats.get(key, 0) + n

    def sut(self, fn, *args, expect=(), where="", **kwargs):
        """Call into pyrex.  Returns ('ok', value) or ('raised', exc) when the
        exception type is in ``expect``; anything else raised by pyrex is a
        violation of class ``unexpected-exception``."""
        try:
            return "ok", fn(*args, **kwargs)
        except (Violation, Skip, HarnessError, RunTimeout, seams.BudgetExceeded):
            raise
        except expect as e:  # noqa: B030 (tuple of types)
            return "raised", e
        except Exception as e:
            tb = traceback.extract_tb(e.__traceback__)
            loc = ""
            for fr in reversed(tb):
                if "/pyrex/" in fr.filename:
                    loc = "%s:%s" % (os.path.basename(fr.filename), fr.name)
                    break
            raise Violation(
                "unexpected-exception:%s@%s" % (type(e).__name__, where or loc),
                "%s: %s (innermost pyrex frame %s)" % (type(e).__name__, e, loc),
            ) from e

    # -- to be provided ---------------------------------------------------
    def draw_config(self, rng):
        return {}

    def setup(self, cfg):
        pass

    def draw_op(self, rng):
        return None

    def apply(self, op):
        return None

    def finish(self):
        return None

    def simplify_op(self, op):
        return ()

    def simplify_config(self, cfg):
        return ()


# ---------------------------------------------------------------------------
# executing one run
# ---------------------------------------------------------------------------

def run_seed_for(verif_seed, prop, machine_name, run_index):
    return derive("run", verif_seed, prop, machine_name, run_index)


def _reset_seams():
    seams.NPRANDOM.reset_stats()
    seams.NPRANDOM.reseed(0)
    seams.set_disk(None)
    seams.set_clock(seams.SimClock())


def execute(machine_cls, record, generate):
    """Execute one run.

    record: dict(property, machine, verif_seed, run_index, run_seed, config,
    ops).  With ``generate`` the config and ops are drawn from the run seed
    and stored into the record; otherwise the explicit lists are replayed.
    Returns dict(digest, steps, violation, stats, nontrivial, skipped, log).
    """
    _reset_seams()
    m = machine_cls()
    rng = SimRandom(record["run_seed"])
    log = hashlib.blake2b(digest_size=16)
    violation = None
    steps = 0
    skipped = 0
    step_digests = []
    try:
        if generate:
            cfg = jsonable(m.draw_config(rng))
            cfg.setdefault("rs", rng.seed32())
            record["config"] = cfg
            record["ops"] = []
        cfg = record["config"]
        seams.NPRANDOM.reseed(cfg.get("rs", 0))
        # machines get private copies: the record (= replay file) must stay as generated
        m.setup(json.loads(json.dumps(cfg)))
        canon(cfg, log)
        i = 0
        while True:
            if generate:
                if i >= cfg.get("n_steps", m.max_steps):
                    break
                op = m.draw_op(rng)
                if op is None:
                    break
                op = jsonable(op)
                op.setdefault("rs", rng.seed32())
                record["ops"].append(op)
            else:
                if i >= len(record["ops"]):
                    break
                op = record["ops"][i]
            i += 1
            seams.NPRANDOM.reseed(op.get("rs", 0), op.get("inject"))
            try:
                out = m.apply(json.loads(json.dumps(op)))
            except Skip:
                skipped += 1
                out = "skip"
            steps += 1
            canon([op.get("op"), out], log)
            step_digests.append(digest_of(out))
        seams.NPRANDOM.reseed(cfg.get("rs", 0) ^ 0x5A5A5A5A)
        out = m.finish()
        canon(["finish", out], log)
    except Violation as v:
        violation = {"cls": v.cls, "msg": v.msg, "step": steps,
                     "details": jsonable(v.details) if v.details is not None else None}
    except seams.BudgetExceeded as e:
        violation = None
        m.count("budget_exceeded")
    stats = dict(m.stats)
    for k, v in seams.NPRANDOM.counts.items():
        stats["draws." + k] = v
    if seams.NPRANDOM.injected_fired:
        stats["draws.injected"] = seams.NPRANDOM.injected_fired
    return {
        "digest": log.hexdigest(),
        "steps": steps,
        "violation": violation,
        "stats": stats,
        "nontrivial": bool(m.nontrivial),
        "skipped": skipped,
    }


def new_record(machine_cls, verif_seed, run_index):
    return {
        "property": machine_cls.prop_id,
        "machine": machine_cls.name,
        "verif_seed": verif_seed,
        "run_index": run_index,
        "run_seed": run_seed_for(verif_seed, machine_cls.prop_id,
                                 machine_cls.name, run_index),
        "config": None,
        "ops": None,
    }


# ---------------------------------------------------------------------------
# shrinking (ddmin over the op list + per-op / config simplification)
# ---------------------------------------------------------------------------

def _same_class(a, b):
    return a is not None and a["cls"] == b["cls"]


def shrink(machine_cls, record, violation, budget=300, time_budget=120.0):
    """Minimise record while the same violation class persists."""
    best = json.loads(json.dumps(record))
    best_v = violation
    tries = [0]
    t0 = time.time()

    def attempt(cand):
        if tries[0] >= budget or time.time() - t0 > time_budget:
            return None
        tries[0] += 1
        try:
            res = execute(machine_cls, cand, generate=False)
        except Exception:
            return None
        if _same_class(res["violation"], violation):
            return res["violation"]
        return None

    # Cut everything after the failing step first
    if best_v.get("step") is not None and best_v["step"] < len(best["ops"]):
        cand = dict(best, ops=best["ops"][:best_v["step"] + 1])
        v = attempt(cand)
        if v:
            best, best_v = cand, v

    # ddmin on ops
    n = 2
    while len(best["ops"]) >= 1 and tries[0] < budget:
        ops = best["ops"]
        chunk = max(1, int(math.ceil(len(ops) / n)))
        reduced = False
        for start in range(0, len(ops), chunk):
            cand_ops = ops[:start] + ops[start + chunk:]
            cand = dict(best, ops=cand_ops)
            v = attempt(cand)
            if v:
                best, best_v = cand, v
                n = max(n - 1, 2)
                reduced = True
                break
        if not reduced:
            if chunk == 1:
                break
            n = min(len(ops), n * 2)

    # per-op simplification
    m = machine_cls()
    changed = True
    while changed and tries[0] < budget:
        changed = False
        for i, op in enumerate(list(best["ops"])):
            for simpler in m.simplify_op(op):
                cand_ops = list(best["ops"])
                cand_ops[i] = jsonable(simpler)
                cand = dict(best, ops=cand_ops)
                v = attempt(cand)
                if v:
                    best, best_v = cand, v
                    changed = True
                    break
        for simpler in m.simplify_config(best["config"]):
            cand = dict(best, config=jsonable(simpler))
            v = attempt(cand)
            if v:
                best, best_v = cand, v
                changed = True
                break
    best["violation"] = best_v
    best["shrink_executions"] = tries[0]
    return best


# ---------------------------------------------------------------------------
# batch runner
# ---------------------------------------------------------------------------

_WORKER_STATE = {}


def _alarm_handler(signum, frame):
    raise RunTimeout("run exceeded its wall-clock limit")


def _run_chunk(args):
    machine_key, verif_seed, indices, per_run_limit, want_samples = args
    machine_cls = _WORKER_STATE["machines"][machine_key]
    out = []
    # (when called in-process the caller's own alarm - run_check's watchdog - is put back afterwards)
    outer_left = signal.alarm(0)
    outer_handler = signal.signal(signal.SIGALRM, _alarm_handler)
    t_enter = time.time()
    try:
        return _run_chunk_inner(machine_cls, verif_seed, indices, per_run_limit, want_samples, out)
    finally:
        signal.alarm(0)
        signal.signal(signal.SIGALRM, outer_handler)
        if outer_left:
            signal.alarm(max(1, int(outer_left - (time.time() - t_enter))))


def _run_chunk_inner(machine_cls, verif_seed, indices, per_run_limit, want_samples, out):
    for idx in indices:
        rec = new_record(machine_cls, verif_seed, idx)
        t0 = time.time()
        signal.alarm(per_run_limit)
        try:
            res = execute(machine_cls, rec, generate=True)
            err = None
        except RunTimeout:
            res = None
            err = "timeout"
        except Exception:
            res = None
            err = traceback.format_exc()
        finally:
            signal.alarm(0)
        item = {"idx": idx, "err": err, "wall": time.time() - t0,
                "machine": machine_cls.name}
        if res is not None:
            item.update(digest=res["digest"], steps=res["steps"],
                        stats=res["stats"], nontrivial=res["nontrivial"],
                        violation=res["violation"])
            if res["violation"] is not None or idx in want_samples:
                item["record"] = rec
        else:
            item["record"] = rec
        out.append(item)
    return out


def run_batch(machines, plan, verif_seed, workers, per_run_limit=600,
              batch_limit=None, sample_indices=(0, 1, 2), stop_on_violation=True):
    """Run ``plan`` = list of (machine_cls, [run indices]) on a process pool.

    Returns dict with per-machine aggregates, violations (records), errors.
    """
    _WORKER_STATE["machines"] = {(m.prop_id, m.name): m for m in machines}
    tasks = []
    for machine_cls, indices in plan:
        indices = list(indices)
        if not indices:
            continue
        # small chunks: good balancing, cheap (fork pool)
        n_chunks = max(1, min(len(indices), workers * 8))
        size = int(math.ceil(len(indices) / n_chunks))
        for s in range(0, len(indices), size):
            tasks.append(((machine_cls.prop_id, machine_cls.name), verif_seed,
                          indices[s:s + size], per_run_limit,
                          set(sample_indices)))
    results = []
    t0 = time.time()
    timed_out = False
    if workers <= 1:
        for t in tasks:
            results.extend(_run_chunk(t))
    else:
        ctx = multiprocessing.get_context("fork")
        with concurrent.futures.ProcessPoolExecutor(max_workers=workers,
                                                    mp_context=ctx) as ex:
            futs = [ex.submit(_run_chunk, t) for t in tasks]
            try:
                for f in concurrent.futures.as_completed(futs, timeout=batch_limit):
                    results.extend(f.result())
            except concurrent.futures.TimeoutError:
                timed_out = True
                for f in futs:
                    f.cancel()
                for p in list(getattr(ex, "_processes", {}).values()):
                    try:
                        p.terminate()
                    except Exception:
                        pass
    wall = time.time() - t0
    results.sort(key=lambda r: (r["machine"], r["idx"]))
    return {"results": results, "wall": wall, "timed_out": timed_out}
