"""One integer decides everything.

``derive(*parts)`` hashes labels into 64-bit seeds (never Python ``hash()``),
``SimRandom`` is the generator every machine draws its configuration,
operations and fault placements from.
"""
import hashlib
import random

DEFAULT_VERIF_SEED = 20260926


def derive(*parts):
    """Stable 63-bit integer derived from the given labels."""
    h = hashlib.blake2b(digest_size=8)
    for p in parts:
        h.update(repr(p).encode())
        h.update(b"|")
    return int.from_bytes(h.digest(), "big") >> 1


class SimRandom(random.Random):
    """``random.Random`` with a few helpers used by the op generators."""

    def chance(self, p):
        return self.random() < p

    def pick(self, seq):
        return seq[self.randrange(len(seq))]

    def weighted(self, pairs):
        """pairs: list of (item, weight). Deterministic weighted choice."""
        total = sum(w for _, w in pairs)
        x = self.random() * total
        acc = 0.0
        for item, w in pairs:
            acc += w
            if x < acc:
                return item
        return pairs[-1][0]

    def seed32(self):
        return self.getrandbits(32)

    def fuzzy_float(self, lo, hi):
        """Float in [lo, hi] rounded to few digits (readable, shrinkable)."""
        return float("%.6g" % self.uniform(lo, hi))
