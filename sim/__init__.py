"""Deterministic simulation framework for the pyrex verification checks."""
