"""Seams: every source of nondeterminism / every fault surface pyrex has.

* ``SimNumpyRandom``  - replaces the module-level ``numpy.random`` functions
  pyrex draws from; reseeded per operation; optional explicit injections of
  rare-but-legal draws ("buggify").
* ``SimDisk`` / ``SimFile`` - ``h5py.File`` subclass resolving file names in an
  in-memory disk (``dict name -> BytesIO``); a restart keeps only the disk.
* ``SimClock`` - replaces ``pyrex.io.datetime``.
* ``FaultPlan`` / ``Proxy`` - attribute-agnostic counting proxies around the
  caller-supplied collaborators (events, antennas, ray paths): "the k-th
  access pyrex makes into a caller-supplied object during this operation
  raises ``InjectedFault``".

Nothing here needs a hook inside /repo: all seams are attribute patches on
``numpy.random`` / ``h5py`` / ``pyrex.io`` and objects passed through public
constructor and method arguments.
"""
import collections
import datetime as _real_datetime
import io

import numpy as np
import h5py

UNIFORM_FUNCS = ("rand", "random_sample", "uniform", "random", "ranf", "sample")
ONE_MINUS_EPS = 1.0 - 2.0 ** -53


class BudgetExceeded(Exception):
    """A run drew more random numbers than the step cap allows."""


class InjectedFault(Exception):
    """Raised by a faulty collaborator at the chosen access."""


class SimNumpyRandom:
    """The stream behind ``numpy.random.<func>`` while a run executes.

    ``reseed(seed, inject)`` is called before every operation.  ``inject`` is
    an explicit list ``[[kind, k, value], ...]``: the k-th (0-based) element
    drawn in this operation from the family ``kind`` ('u' uniform-like in
    [0,1), 'rayleigh', 'poisson') is replaced by ``value`` (for 'u' the value
    is the unit-interval draw, mapped affinely for ``uniform(low, high)``).
    """

    DRAW_CAP = 2_000_000

    def __init__(self):
        self.rs = np.random.RandomState(0)
        self.counts = collections.Counter()
        self.total_draws = 0
        self.injected_fired = 0
        self._inject = {}
        self._elem = collections.Counter()
        self.hits = 0  # number of calls routed through the seam (reach)

    # -- control ---------------------------------------------------------
    def reseed(self, seed, inject=None):
        self.rs = np.random.RandomState(int(seed) % (2 ** 32))
        self._elem = collections.Counter()
        self._inject = {}
        for kind, k, value in (inject or []):
            self._inject[(kind, int(k))] = value

    def reset_stats(self):
        self.counts = collections.Counter()
        self.total_draws = 0
        self.injected_fired = 0
        self.hits = 0

    # -- helpers ---------------------------------------------------------
    def _account(self, name, out):
        n = int(np.size(out))
        self.counts[name] += n
        self.total_draws += n
        self.hits += 1
        if self.total_draws > self.DRAW_CAP:
            raise BudgetExceeded("more than %d random draws in one run" % self.DRAW_CAP)
        return n

    def _apply(self, kind, out, n, transform=None):
        """Replace injected elements of the flat draw sequence of ``kind``."""
        start = self._elem[kind]
        self._elem[kind] = start + n
        if not self._inject:
            return out
        hit = [(k - start, v) for (kd, k), v in self._inject.items()
               if kd == kind and start <= k < start + n]
        if not hit:
            return out
        scalar = np.ndim(out) == 0
        arr = np.array(out, dtype=float if kind != "poisson" else None, ndmin=1).copy()
        flat = arr.reshape(-1)
        for idx, v in hit:
            if transform is not None:
                flat[idx] = transform(v, idx)
            else:
                flat[idx] = v
            self.injected_fired += 1
        if scalar:
            val = flat[0]
            return float(val) if kind != "poisson" else int(val)
        return arr

    # -- the patched functions ---------------------------------------------
    def rand(self, *shape):
        out = self.rs.rand(*shape)
        n = self._account("rand", out)
        return self._apply("u", out, n)

    def random_sample(self, size=None):
        out = self.rs.random_sample(size)
        n = self._account("random_sample", out)
        return self._apply("u", out, n)

    random = random_sample
    ranf = random_sample
    sample = random_sample

    def uniform(self, low=0.0, high=1.0, size=None):
        out = self.rs.uniform(low, high, size)
        n = self._account("uniform", out)
        if not self._inject:
            self._elem["u"] += n
            return out
        lo = np.broadcast_to(np.asarray(low, dtype=float), np.shape(out)).reshape(-1) \
            if np.ndim(out) else np.asarray([low], dtype=float).reshape(-1)
        hi = np.broadcast_to(np.asarray(high, dtype=float), np.shape(out)).reshape(-1) \
            if np.ndim(out) else np.asarray([high], dtype=float).reshape(-1)

        def tr(u, idx):
            i = idx if len(lo) > 1 else 0
            j = idx if len(hi) > 1 else 0
            return lo[i] + u * (hi[j] - lo[i])
        return self._apply("u", out, n, transform=tr)

    def normal(self, loc=0.0, scale=1.0, size=None):
        out = self.rs.normal(loc, scale, size)
        self._account("normal", out)
        return out

    def standard_normal(self, size=None):
        out = self.rs.standard_normal(size)
        self._account("standard_normal", out)
        return out

    def randn(self, *shape):
        out = self.rs.randn(*shape)
        self._account("randn", out)
        return out

    def rayleigh(self, scale=1.0, size=None):
        out = self.rs.rayleigh(scale, size)
        n = self._account("rayleigh", out)
        return self._apply("rayleigh", out, n)

    def poisson(self, lam=1.0, size=None):
        out = self.rs.poisson(lam, size)
        n = self._account("poisson", out)
        return self._apply("poisson", out, n)

    def exponential(self, scale=1.0, size=None):
        out = self.rs.exponential(scale, size)
        self._account("exponential", out)
        return out

    def randint(self, *a, **k):
        out = self.rs.randint(*a, **k)
        self._account("randint", out)
        return out

    def choice(self, *a, **k):
        out = self.rs.choice(*a, **k)
        self._account("choice", out)
        return out

    def shuffle(self, x):
        self._account("shuffle", x)
        return self.rs.shuffle(x)

    def permutation(self, x):
        out = self.rs.permutation(x)
        self._account("permutation", out)
        return out

    def seed(self, *a, **k):
        # A reseed requested by the code under test must not make the run
        # depend on anything but the run seed: ignore it.
        self.hits += 1

    PATCHED = ("rand", "random_sample", "random", "ranf", "sample", "uniform",
               "normal", "standard_normal", "randn", "rayleigh", "poisson",
               "exponential", "randint", "choice", "shuffle", "permutation",
               "seed")


_ORIGINALS = {}
NPRANDOM = SimNumpyRandom()


def install_numpy_seam():
    """Route the module-level numpy.random functions to the simulator."""
    if _ORIGINALS:
        return NPRANDOM
    for name in SimNumpyRandom.PATCHED:
        _ORIGINALS[name] = getattr(np.random, name)
        setattr(np.random, name, getattr(NPRANDOM, name))
    return NPRANDOM


# ---------------------------------------------------------------------------
# Storage seam
# ---------------------------------------------------------------------------

class SimDisk:
    """In-memory disk: the only thing that survives a simulated restart."""

    def __init__(self):
        self.files = {}
        self.opens = collections.Counter()

    def exists(self, name):
        return name in self.files

    def image(self, name):
        return self.files[name].getvalue()

    def put_image(self, name, data):
        self.files[name] = io.BytesIO(data)

    def snapshot(self):
        return {k: v.getvalue() for k, v in self.files.items()}

    def restore(self, snap):
        self.files = {k: io.BytesIO(v) for k, v in snap.items()}


_CURRENT_DISK = [None]
SIM_PREFIX = "sim://"
_RealFile = h5py.File


class SimFile(_RealFile):
    """``h5py.File`` that resolves ``sim://`` names in the current SimDisk."""

    def __init__(self, name, mode="r", *args, **kwargs):
        disk = _CURRENT_DISK[0]
        if isinstance(name, str) and name.startswith(SIM_PREFIX):
            if disk is None:
                raise RuntimeError("SimFile used without an active SimDisk")
            disk.opens[mode] += 1
            if mode == "r" or mode == "r+":
                if not disk.exists(name):
                    raise FileNotFoundError(
                        "[Errno 2] Unable to open file (sim): %r" % name)
                bio = disk.files[name]
            elif mode == "w":
                bio = io.BytesIO()
                disk.files[name] = bio
            elif mode in ("x", "w-"):
                if disk.exists(name):
                    raise FileExistsError(
                        "[Errno 17] Unable to create file (sim, exists): %r" % name)
                bio = io.BytesIO()
                disk.files[name] = bio
            elif mode == "a":
                if disk.exists(name):
                    bio = disk.files[name]
                    mode = "r+"
                else:
                    bio = io.BytesIO()
                    disk.files[name] = bio
                    mode = "w"
            else:
                raise ValueError("Invalid mode %r" % (mode,))
            bio.seek(0)
            super().__init__(bio, mode, *args, **kwargs)
        else:
            super().__init__(name, mode, *args, **kwargs)


def install_storage_seam():
    h5py.File = SimFile


def set_disk(disk):
    _CURRENT_DISK[0] = disk


# ---------------------------------------------------------------------------
# Clock seam
# ---------------------------------------------------------------------------

class SimClock:
    """Simulated wall clock behind ``pyrex.io.datetime.datetime.now()``."""

    def __init__(self, start=1_700_000_000.0):
        self.t = float(start)
        self.start = float(start)
        self.reads = 0
        self.min_t = self.t
        self.max_t = self.t

    def advance(self, dt):
        self.t += dt
        self.min_t = min(self.min_t, self.t)
        self.max_t = max(self.max_t, self.t)

    def now(self):
        self.reads += 1
        return _real_datetime.datetime.utcfromtimestamp(self.t) \
            if hasattr(_real_datetime.datetime, "utcfromtimestamp") \
            else _real_datetime.datetime.fromtimestamp(self.t)


_CURRENT_CLOCK = [SimClock()]


class _FakeDatetimeClass:
    @staticmethod
    def now(tz=None):
        return _CURRENT_CLOCK[0].now()

    def __getattr__(self, name):
        return getattr(_real_datetime.datetime, name)


class _FakeDatetimeModule:
    datetime = _FakeDatetimeClass()

    def __getattr__(self, name):
        return getattr(_real_datetime, name)


def install_clock_seam(pyrex_io_module):
    pyrex_io_module.datetime = _FakeDatetimeModule()


def set_clock(clock):
    _CURRENT_CLOCK[0] = clock


# ---------------------------------------------------------------------------
# Collaborator seam: counting / faulting proxies
# ---------------------------------------------------------------------------

class FaultPlan:
    """Counts every access pyrex makes into proxied objects while armed and
    raises ``InjectedFault`` on the k-th one (k is 1-based; None = count only).
    """

    def __init__(self):
        self.armed = False
        self.k = None
        self.count = 0
        self.fired = False
        self.fired_at = None

    def arm(self, k=None):
        self.armed = True
        self.k = k
        self.count = 0
        self.fired = False
        self.fired_at = None

    def disarm(self):
        self.armed = False

    def tick(self, what):
        if not self.armed:
            return
        self.count += 1
        if self.k is not None and self.count == self.k:
            self.fired = True
            self.fired_at = what
            raise InjectedFault("injected fault at access #%d (%s)" % (self.k, what))


class Proxy:
    """Attribute-agnostic counting proxy around a real object.

    Every attribute read and every special-method use counts as one access.
    Values are returned unwrapped (the real attribute), so the code under
    test sees exactly the real data.
    """
    __slots__ = ("_p_obj", "_p_plan", "_p_label")

    def __init__(self, obj, plan, label):
        object.__setattr__(self, "_p_obj", obj)
        object.__setattr__(self, "_p_plan", plan)
        object.__setattr__(self, "_p_label", label)

    def __getattr__(self, name):
        plan = object.__getattribute__(self, "_p_plan")
        obj = object.__getattribute__(self, "_p_obj")
        label = object.__getattribute__(self, "_p_label")
        # hasattr() probes for names the real object lacks are not accesses
        # into caller data: let AttributeError through uncounted.
        if not hasattr(type(obj), name) and name not in getattr(obj, "__dict__", {}):
            return getattr(obj, name)
        plan.tick("%s.%s" % (label, name))
        return getattr(obj, name)

    def __setattr__(self, name, value):
        setattr(object.__getattribute__(self, "_p_obj"), name, value)

    def __len__(self):
        object.__getattribute__(self, "_p_plan").tick(
            "%s.__len__" % object.__getattribute__(self, "_p_label"))
        return len(object.__getattribute__(self, "_p_obj"))

    def __iter__(self):
        object.__getattribute__(self, "_p_plan").tick(
            "%s.__iter__" % object.__getattribute__(self, "_p_label"))
        return iter(object.__getattribute__(self, "_p_obj"))

    def __getitem__(self, key):
        object.__getattribute__(self, "_p_plan").tick(
            "%s.__getitem__" % object.__getattribute__(self, "_p_label"))
        return object.__getattribute__(self, "_p_obj")[key]

    def __bool__(self):
        return True

    def __repr__(self):
        return "Proxy(%r)" % (object.__getattribute__(self, "_p_obj"),)


def unwrap(obj):
    if isinstance(obj, Proxy):
        return object.__getattribute__(obj, "_p_obj")
    return obj
